package main

import (
	"encoding/json"
	"fmt"
	"io/ioutil"
	"os"
	"path/filepath"
	"sort"
	"strings"
)

var rules = map[string]string{
	"C15": "Each scenario = seeded declaration + world (env, tty width, clock held fixed) + history of operations (INI read with the same option addressed from several sections, ParseArgs, WriteHelp, WriteManPage, INI write, completion, stores of multi-entry maps), executed under K map-iteration schedules (identity, reverse, rotate, seeded permutations) decided by the simulator at every woven range-over-map / MapKeys site; all observables must agree byte for byte. Signature = (operation kinds, woven sites that saw >= 2 keys). Non-trivial iff at least one site saw >= 2 keys and a non-identity permutation was applied to it.",
	"C14": "Each scenario = declaration + INI bytes (structured with noise and at most one faulty line at a known physical line; torn by a simulated crash inside WriteFile; or arbitrary bytes) delivered through a fault-injecting reader (fragmentation, zero-byte reads, data+EOF, I/O errors) or the simulated disk. Signature = (source kind, fault kinds fired, faulty-line kind, line-length class, outcome class). Non-trivial iff at least one entry line was parsed and (a reader fault fired or a noise/faulty line was present).",
	"C12": "Each scenario = declaration + stored values inside the property's quantifier + IniOptions + write via writer or simulated disk + reboot + read through a differently fragmented reader + ParseArgs(nil), possibly chained over several boots. Signature = (IniOptions, set of (kind, value-class) written, fragmentation class). Non-trivial iff at least one option was written un-commented and read back from >= 2 chunks or from a line > 4096 bytes, or carried a value needing quoting.",
	"C09": "Each scenario = command tree with logging Execute nodes + valid command line built from a plan + injected faults (token faults at a swept position, callee faults at the n-th call, completion mode, failing stdout/stderr), with/without CommandHandler, on fresh and reused parsers. Signature = (tree shape, fault kind, position class, handler mode). Non-trivial iff the fault-free twin executed a command at depth >= 1 and the fault changed the outcome.",
	"C04": "Each scenario = declaration + argument vector (valid plan + known fault, or adversarial tokens) + parser option subset + fd1/fd2 fault plan + callee faults; monitors on fd 1/2, os.Exit, panic and loop-step budget. Signature = (declaration shape, token classes, outcome class, fault kind). Non-trivial iff the vector has >= 1 option-syntax token or a fault was injected.",
	"C05": "Each scenario = declaration + history (stores, setenv/unsetenv, INI read normal/as-defaults, ParseArgs in both orders, env mutations in between) judged against an executable precedence model. Signature = (option kind, subset of the five sources present, history shape). Non-trivial iff >= 2 sources were present for a judged option.",
}

var assumptions = []string{
	"The Go standard library below the seams (bufio, strconv, reflect, fmt, sort) is trusted and runs for real.",
	"The operating system is a stub owned by the simulator (simrt): environment, fd 1/2, os.Exit, files, clock, tty width; user callbacks (Execute, CommandHandler, option callbacks, UnmarshalFlag, IsValidValue, UnknownOptionHandler, Completer) are recording stubs with fault plans.",
	"The library code is the real code of /repo's working tree, rewritten only at the seams by the type-driven weaver (checked separately by `bin/simcheck selftest-weave`: the library's own tests run on the woven copy in pass-through mode; not re-run by this check).",
	"Sampling, not enumeration: a clean batch is evidence, not proof.",
	"Windows-only files are excluded by build constraints.",
}

func writeEvidence(prop, tier string, seed uint64, cfg tierCfg, ws *Workspace, m *workerResult, knownHits map[string]int, unlisted int, wall float64) error {
	nontriv := 0
	for _, v := range m.Sigs {
		if v {
			nontriv++
		}
	}
	faults := map[string]int{}
	probes := map[string]int{}
	cells := []string{}
	for k, v := range m.Stats {
		if strings.HasPrefix(k, "cell.") {
			cells = append(cells, strings.TrimPrefix(k, "cell."))
			continue
		}
		if strings.HasPrefix(k, "fault.") {
			faults[strings.TrimPrefix(k, "fault.")] = v
		} else {
			probes[k] = v
		}
	}
	samples := make([]interface{}, 0, len(m.Samples))
	for _, s := range m.Samples {
		var x interface{}
		if json.Unmarshal(s, &x) == nil {
			samples = append(samples, x)
		}
	}
	if len(samples) == 0 {
		samples = append(samples, "no non-trivial passing scenario was sampled in this run")
	}
	rph := 0.0
	if wall > 0 {
		rph = float64(m.Runs) / wall * 3600
	}
	var sites []string
	for k, v := range ws.Report.Sites {
		sites = append(sites, k+"="+itoa(v))
	}
	sort.Strings(sites)
	cov := map[string]interface{}{
		"evaluations":         m.Evals,
		"distinct_nontrivial": nontriv,
		"rule":                rules[prop],
		"samples":             samples,
		"scenarios":           m.Runs,
		"distinct_signatures": len(m.Sigs),
		"operations_executed": m.OpsRun,
		"scenarios_per_hour":  int(rph),
		"simulated_time":      "not a timed system: coverage is counted in boots and operations (operations_executed); the simulated clock only feeds WriteManPage's date line",
		"faults_fired":        faults,
		"reach_probes":        probes,
		"not_judged":          m.NotJudged,
		"woven_sites":         sites,
		"woven_seam_list":     ws.Report.SiteList,
		"unwoven_os_uses":     ws.Report.Unwoven,
		"workers":             cfg.Workers,
		"batch_hash":          m.TraceHash,
		"known_findings_hit":  knownHits,
		"real_code":           "every non-test .go file of /repo's working tree for linux (woven at seams)",
		"stubbed":             "OS (env, fd1/2, exit, disk, clock, tty), user callbacks",
		"exhaustive":          false,
	}
	if len(cells) > 0 {
		sort.Strings(cells)
		cov["cells"] = cells
		cov["cells_covered"] = len(cells)
		if prop == "C05" {
			cov["cells_upper_bound"] = 12 * 5 * 32 // history shapes x kind classes (scalar, slice, map, ptr, func) x subsets of the five sources
		}
		cov["cells_rule"] = map[string]string{
			"C05": "cell = (history shape | option kind class | subset of {cli, ini, env, default, stored} present for a judged option); at most 12 x 5 x 32 = 1920 (not every combination can occur: e.g. shapes without an INI read have no 'ini' source)",
			"C12": "cell = (kind class : value class written | IniOptions)",
			"C04": "cell = (token class present in argv | outcome class)",
			"C15": "cell = (woven map-iteration site / number of keys : permutation applied), for events with 2..4 keys; at most n! per (site, n)",
		}[prop]
	}
	ev := map[string]interface{}{
		"property_id": prop,
		"tier":        tier,
		"seed":        seed,
		"level":       "exploration",
		"coverage":    cov,
		"assumptions": assumptions,
		"wall_s":      wall,
		"violations":  unlisted,
	}
	// self-check against the keys and minimums EVIDENCE.schema.json requires for
	// level "exploration"
	if m.Evals < 1 || nontriv < 2 || len(samples) < 1 || rules[prop] == "" {
		return fmt.Errorf("evidence would not validate: evaluations=%d distinct_nontrivial=%d samples=%d", m.Evals, nontriv, len(samples))
	}
	b, err := json.MarshalIndent(ev, "", " ")
	if err != nil {
		return err
	}
	dir := filepath.Join(verifDir(), "evidence")
	os.MkdirAll(dir, 0755)
	return ioutil.WriteFile(filepath.Join(dir, prop+".json"), b, 0644)
}

func itoa(n int) string {
	b, _ := json.Marshal(n)
	return string(b)
}
