package main

import (
	"bytes"
	"encoding/json"
	"fmt"
	"io/ioutil"
	"os"
	"os/exec"
	"path/filepath"
	"strings"
	"time"

	"verif/weave"
)

func verifDir() string {
	if d := os.Getenv("VERIF_DIR"); d != "" {
		return d
	}
	exe, err := os.Executable()
	if err == nil {
		d := filepath.Dir(filepath.Dir(exe))
		if _, err := os.Stat(filepath.Join(d, "simrt")); err == nil {
			return d
		}
	}
	wd, _ := os.Getwd()
	return wd
}

func repoDir() string {
	if d := os.Getenv("VERIF_REPO"); d != "" {
		return d
	}
	return "/repo"
}

func goEnv() []string {
	env := []string{}
	for _, e := range os.Environ() {
		k := strings.SplitN(e, "=", 2)[0]
		switch k {
		case "GOFLAGS", "GOPROXY", "GOSUMDB", "GOTOOLCHAIN", "GO111MODULE", "GOWORK":
			continue
		}
		env = append(env, e)
	}
	return append(env, "GOFLAGS=-mod=mod", "GOPROXY=off", "GOSUMDB=off", "GOTOOLCHAIN=local", "GO111MODULE=on", "GOWORK=off")
}

// Workspace is one woven scratch copy plus the harness binary built on it.
type Workspace struct {
	Dir    string
	Flags  string // woven library copy
	Exec   string // harness binary
	Report *weave.Report
	WeaveS float64
	BuildS float64
	keep   bool
}

func (w *Workspace) Cleanup() {
	if w == nil || w.keep || w.Dir == "" {
		return
	}
	os.RemoveAll(w.Dir)
}

func scratchRoot() string {
	if d := os.Getenv("VERIF_SCRATCH"); d != "" {
		return d
	}
	if d := os.Getenv("TMPDIR"); d != "" {
		return d
	}
	return "/var/tmp"
}

// prepare copies /repo's working tree, weaves it and (unless weaveOnly) builds
// the harness binary against the woven copy.
func prepare(withTests, weaveOnly bool) (*Workspace, error) {
	root := scratchRoot()
	os.MkdirAll(root, 0755)
	dir, err := ioutil.TempDir(root, "verif-weave.")
	if err != nil {
		return nil, err
	}
	ws := &Workspace{Dir: dir, Flags: filepath.Join(dir, "flags"), Exec: filepath.Join(dir, "simexec")}
	if os.Getenv("VERIF_KEEP") != "" {
		ws.keep = true
		fmt.Fprintf(os.Stderr, "simcheck: keeping workspace %s\n", dir)
	}
	t0 := time.Now()
	if err := weave.CopyTree(repoDir(), ws.Flags, withTests); err != nil {
		return ws, fmt.Errorf("copy: %v", err)
	}
	if err := weave.CopySimrt(filepath.Join(verifDir(), "simrt"), ws.Flags); err != nil {
		return ws, fmt.Errorf("copy simrt: %v", err)
	}
	// the type checker's source importer shells out to `go list`
	restore := setEnvs(goEnv())
	rep, err := weave.Weave(ws.Flags)
	restore()
	if err != nil {
		return ws, fmt.Errorf("weave: %v", err)
	}
	ws.Report = rep
	ws.WeaveS = time.Since(t0).Seconds()
	if weaveOnly {
		return ws, nil
	}
	t1 := time.Now()
	// harness module file with the replace directive
	repoMod, _ := ioutil.ReadFile(filepath.Join(ws.Flags, "go.mod"))
	var reqs []string
	for _, l := range strings.Split(string(repoMod), "\n") {
		t := strings.TrimSpace(l)
		if strings.HasPrefix(t, "require ") && !strings.HasSuffix(t, "(") {
			reqs = append(reqs, t)
		}
	}
	mod := fmt.Sprintf("module simharness\n\ngo 1.23\n\nrequire %s v0.0.0\n%s\nreplace %s => %s\n",
		rep.ModulePath, strings.Join(reqs, "\n"), rep.ModulePath, ws.Flags)
	if err := ioutil.WriteFile(filepath.Join(dir, "go.mod"), []byte(mod), 0644); err != nil {
		return ws, err
	}
	sum, _ := ioutil.ReadFile(filepath.Join(ws.Flags, "go.sum"))
	ioutil.WriteFile(filepath.Join(dir, "go.sum"), sum, 0644)
	cmd := exec.Command("go", "build", "-trimpath", "-modfile="+filepath.Join(dir, "go.mod"), "-o", ws.Exec, ".")
	cmd.Dir = filepath.Join(verifDir(), "harness")
	cmd.Env = goEnv()
	var out bytes.Buffer
	cmd.Stdout = &out
	cmd.Stderr = &out
	if err := cmd.Run(); err != nil {
		return ws, fmt.Errorf("build of harness against woven copy failed: %v\n%s", err, out.String())
	}
	ws.BuildS = time.Since(t1).Seconds()
	return ws, nil
}

func setEnvs(env []string) func() {
	old := os.Environ()
	os.Clearenv()
	for _, e := range env {
		kv := strings.SplitN(e, "=", 2)
		os.Setenv(kv[0], kv[1])
	}
	return func() {
		os.Clearenv()
		for _, e := range old {
			kv := strings.SplitN(e, "=", 2)
			os.Setenv(kv[0], kv[1])
		}
	}
}

func cmdWeave(args []string) int {
	if len(args) < 1 {
		usage()
	}
	withTests := len(args) > 1 && args[1] == "--tests"
	os.Setenv("VERIF_KEEP", "1")
	os.Setenv("VERIF_SCRATCH", args[0])
	ws, err := prepare(withTests, true)
	if err != nil {
		fmt.Fprintln(os.Stderr, "simcheck:", err)
		return 2
	}
	b, _ := json.MarshalIndent(ws.Report, "", " ")
	fmt.Println(string(b))
	fmt.Println("woven copy:", ws.Flags)
	return 0
}

// cmdSelftestWeave runs the library's own test suite on the woven copy with
// simrt in pass-through mode: evidence that weaving preserves behaviour.
func cmdSelftestWeave(args []string) int {
	ws, err := prepare(true, true)
	defer ws.Cleanup()
	if err != nil {
		fmt.Fprintln(os.Stderr, "simcheck:", err)
		return 2
	}
	cmd := exec.Command("go", "test", "-count=1", "-vet=off", "-json", ".")
	cmd.Dir = ws.Flags
	cmd.Env = goEnv()
	out, _ := cmd.CombinedOutput()
	pass, fail := 0, 0
	var failed []string
	for _, l := range strings.Split(string(out), "\n") {
		var ev struct{ Action, Test string }
		if json.Unmarshal([]byte(l), &ev) != nil || ev.Test == "" {
			continue
		}
		switch ev.Action {
		case "pass":
			pass++
		case "fail":
			fail++
			failed = append(failed, ev.Test)
		}
	}
	fmt.Printf("selftest-weave: %d tests pass, %d fail on the woven copy (pass-through mode); sites woven: %v\n", pass, fail, ws.Report.Sites)
	if fail > 0 || pass == 0 {
		fmt.Println("failed:", failed)
		if pass == 0 {
			fmt.Println(string(out))
		}
		return 2
	}
	return 0
}
