// simcheck is the driver of the deterministic-simulation checks for go-flags.
//
//	simcheck run <PROP> [--tier quick|thorough] [--seed N]
//	simcheck replay <file>
//	simcheck weave <dst> [--tests]        (debugging aid)
//	simcheck selftest-weave               (library's own tests on the woven copy)
//	simcheck selftest-determinism
//
// Exit status: 0 = property held on everything explored; 1 = VIOLATION line
// printed; 2 = build / weave / harness trouble (never a VIOLATION).
package main

import (
	"fmt"
	"os"
)

func usage() {
	fmt.Fprintln(os.Stderr, "usage: simcheck run <PROP> [--tier quick|thorough] [--seed N] | replay <file> | weave <dst> [--tests] | selftest-weave | selftest-determinism")
	os.Exit(2)
}

func main() {
	if len(os.Args) < 2 {
		usage()
	}
	defer func() {
		if r := recover(); r != nil {
			fmt.Fprintf(os.Stderr, "simcheck: internal error: %v\n", r)
			os.Exit(2)
		}
	}()
	switch os.Args[1] {
	case "weave":
		os.Exit(cmdWeave(os.Args[2:]))
	case "selftest-weave":
		os.Exit(cmdSelftestWeave(os.Args[2:]))
	case "run":
		os.Exit(cmdRun(os.Args[2:]))
	case "replay":
		os.Exit(cmdReplay(os.Args[2:]))
	case "selftest-determinism":
		os.Exit(cmdSelftestDeterminism(os.Args[2:]))
	case "exec":
		// pass-through to the harness binary after building it (debugging)
		os.Exit(cmdExec(os.Args[2:]))
	default:
		usage()
	}
}
