package main

func cmdSelftestDeterminism(args []string) int { return 2 }
