package main

func cmdRun(args []string) int                  { return 2 }
func cmdReplay(args []string) int               { return 2 }
func cmdSelftestDeterminism(args []string) int  { return 2 }
func cmdExec(args []string) int                 { return 2 }
