package main

import (
	"encoding/json"
	"flag"
	"fmt"
	"io/ioutil"
	"os"
	"os/exec"
	"path/filepath"
	"sort"
	"sync"
)

// cmdSelftestDeterminism runs the same seeds of every scenario family in
// several configurations (1 process with GOMAXPROCS=1, the same again, 4
// processes with GOMAXPROCS=4, 16 processes with GOMAXPROCS=16) and compares
// a hash of the complete outcome of every execution, scenario by scenario.
func cmdSelftestDeterminism(args []string) int {
	fs := flag.NewFlagSet("selftest-determinism", flag.ExitOnError)
	count := fs.Int("count", 600, "scenarios per property")
	fs.Parse(args)
	ws, err := prepare(false, false)
	defer ws.Cleanup()
	if err != nil {
		fmt.Fprintln(os.Stderr, "simcheck:", err)
		return 2
	}
	props := make([]string, 0, len(budgets))
	for p := range budgets {
		props = append(props, p)
	}
	sort.Strings(props)
	type cfg struct {
		name     string
		workers  int
		maxprocs string
	}
	cfgs := []cfg{{"1x1", 1, "1"}, {"1x1-again", 1, "1"}, {"4x4", 4, "4"}, {"16x16", 16, "16"}}
	bad := 0
	procs := 0
	type pass struct {
		seed uint64
		tier string
	}
	// the thorough tier generates other scenarios (several faults per line, more
	// schedules): one pass of it as well
	for _, ps := range []pass{{1, "quick"}, {7, "quick"}, {3, "thorough"}} {
		seed := ps.seed
		for _, prop := range props {
			results := make([]map[string]string, len(cfgs))
			for ci, c := range cfgs {
				merged := map[string]string{}
				var mu sync.Mutex
				var wg sync.WaitGroup
				var firstErr error
				for w := 0; w < c.workers; w++ {
					wg.Add(1)
					procs++
					go func(w int) {
						defer wg.Done()
						out := filepath.Join(ws.Dir, fmt.Sprintf("h-%s-%d-%d.json", prop, ci, w))
						cmd := exec.Command(ws.Exec, "run", "--prop", prop, "--tier", ps.tier, "--seed", fmt.Sprint(seed), "--worker", fmt.Sprint(w), "--workers", fmt.Sprint(c.workers),
							"--count", fmt.Sprint(*count), "--out", os.DevNull, "--hashes", out, "--replays", filepath.Join(ws.Dir, "replays"))
						cmd.Env = append(os.Environ(), "GOMAXPROCS="+c.maxprocs)
						if o, err := cmd.CombinedOutput(); err != nil {
							mu.Lock()
							firstErr = fmt.Errorf("%v: %s", err, clipStr(string(o), 1000))
							mu.Unlock()
							return
						}
						b, err := ioutil.ReadFile(out)
						m := map[string]string{}
						if err == nil {
							err = json.Unmarshal(b, &m)
						}
						mu.Lock()
						if err != nil {
							firstErr = err
						}
						for k, v := range m {
							merged[k] = v
						}
						mu.Unlock()
					}(w)
				}
				wg.Wait()
				if firstErr != nil {
					fmt.Fprintln(os.Stderr, "simcheck: selftest trouble:", firstErr)
					return 2
				}
				results[ci] = merged
			}
			diff := 0
			for k, h := range results[0] {
				for ci := 1; ci < len(cfgs); ci++ {
					if results[ci][k] != h {
						diff++
						if diff <= 5 {
							fmt.Printf("NONDETERMINISM property=%s seed=%d index=%s: %s=%s %s=%s\n", prop, seed, k, cfgs[0].name, h, cfgs[ci].name, results[ci][k])
						}
					}
				}
			}
			fmt.Printf("selftest-determinism: %s seed=%d tier=%s: %d scenarios x %d configurations, %d differing\n", prop, seed, ps.tier, len(results[0]), len(cfgs), diff)
			if diff > 0 || len(results[0]) == 0 {
				bad++
			}
		}
	}
	fmt.Printf("selftest-determinism: %d OS processes in total\n", procs)
	if bad > 0 {
		return 2
	}
	return 0
}
