package main

import (
	"bytes"
	"encoding/json"
	"flag"
	"fmt"
	"io/ioutil"
	"os"
	"os/exec"
	"path/filepath"
	"runtime"
	"sort"
	"strconv"
	"strings"
	"sync"
	"time"
)

type tierCfg struct {
	Count     int     // scenarios in total
	Workers   int     // OS processes
	MaxSec    float64 // stop generating after this many seconds per worker
	ShrinkSec float64
	Watchdog  time.Duration
}

// budgets per property and tier (scenario counts sized from measured cost).
var budgets = map[string]map[string]tierCfg{
	"C15": {"quick": {40000, 16, 60, 15, 6 * time.Minute}, "thorough": {6000000, 16, 600, 60, 40 * time.Minute}},
	"C14": {"quick": {50000, 16, 60, 15, 6 * time.Minute}, "thorough": {8000000, 16, 600, 60, 40 * time.Minute}},
	"C12": {"quick": {40000, 16, 60, 15, 6 * time.Minute}, "thorough": {6000000, 16, 600, 60, 40 * time.Minute}},
	"C09": {"quick": {100000, 16, 60, 15, 6 * time.Minute}, "thorough": {16000000, 16, 600, 60, 40 * time.Minute}},
	"C04": {"quick": {100000, 16, 60, 15, 6 * time.Minute}, "thorough": {16000000, 16, 600, 60, 40 * time.Minute}},
	"C05": {"quick": {100000, 16, 60, 15, 6 * time.Minute}, "thorough": {16000000, 16, 600, 60, 40 * time.Minute}},
}

type violationRec struct {
	Class  string `json:"class"`
	Msg    string `json:"msg"`
	Replay string `json:"replay"`
	Known  string `json:"known,omitempty"`
	Seed   uint64 `json:"seed"`
	Index  int    `json:"index"`
	Shrink string `json:"shrink,omitempty"`
}

type workerResult struct {
	Prop       string            `json:"prop"`
	Runs       int               `json:"runs"`
	Evals      int               `json:"evals"`
	OpsRun     int               `json:"ops_run"`
	Sigs       map[string]bool   `json:"sigs"`
	Stats      map[string]int    `json:"stats"`
	NotJudged  map[string]int    `json:"not_judged"`
	Samples    []json.RawMessage `json:"samples"`
	Violations []violationRec    `json:"violations"`
	Trouble    string            `json:"trouble,omitempty"`
	WallS      float64           `json:"wall_s"`
	TraceHash  uint64            `json:"trace_hash"`
}

type knownFinding struct {
	ID       string `json:"id"`
	Property string `json:"property"`
	Status   string `json:"status"`
	What     string `json:"what"`
	Commit   string `json:"commit,omitempty"`
}

func loadKnownFindings() map[string]knownFinding {
	out := map[string]knownFinding{}
	b, err := ioutil.ReadFile(filepath.Join(verifDir(), "known_findings.json"))
	if err != nil {
		return out
	}
	var kf struct {
		Findings []knownFinding `json:"findings"`
	}
	if json.Unmarshal(b, &kf) == nil {
		for _, f := range kf.Findings {
			out[f.ID] = f
		}
	}
	return out
}

func envSeed() uint64 {
	if s := os.Getenv("VERIF_SEED"); s != "" {
		if n, err := strconv.ParseUint(strings.TrimSpace(s), 10, 64); err == nil {
			return n
		}
		if n, err := strconv.ParseInt(strings.TrimSpace(s), 10, 64); err == nil {
			return uint64(n)
		}
	}
	return 1
}

func cmdRun(args []string) int {
	if len(args) < 1 {
		usage()
	}
	prop := args[0]
	fs := flag.NewFlagSet("run", flag.ExitOnError)
	tier := fs.String("tier", "", "quick|thorough")
	seedF := fs.String("seed", "", "")
	countF := fs.Int("count", 0, "override scenario count")
	workersF := fs.Int("workers", 0, "override worker count")
	noEvidence := fs.Bool("no-evidence", false, "do not write the evidence file")
	fs.Parse(args[1:])
	if *tier == "" {
		*tier = os.Getenv("VERIF_TIER")
	}
	if *tier != "thorough" {
		*tier = "quick"
	}
	seed := envSeed()
	if *seedF != "" {
		n, err := strconv.ParseUint(*seedF, 10, 64)
		if err != nil {
			fmt.Fprintln(os.Stderr, "simcheck: bad --seed")
			return 2
		}
		seed = n
	}
	cfgs, ok := budgets[prop]
	if !ok {
		fmt.Fprintln(os.Stderr, "simcheck: no check for property", prop)
		return 2
	}
	cfg := cfgs[*tier]
	if *countF > 0 {
		cfg.Count = *countF
	}
	if *workersF > 0 {
		cfg.Workers = *workersF
	}
	if n := runtime.NumCPU(); cfg.Workers > n {
		cfg.Workers = n
	}
	t0 := time.Now()
	fmt.Printf("simcheck: property=%s tier=%s VERIF_SEED=%d scenarios=%d workers=%d\n", prop, *tier, seed, cfg.Count, cfg.Workers)
	ws, err := prepare(false, false)
	defer ws.Cleanup()
	if err != nil {
		fmt.Fprintln(os.Stderr, "simcheck:", err)
		return 2
	}
	fmt.Printf("simcheck: wove %d files of %s (%.1fs), built harness (%.1fs)\n", len(ws.Report.Files), repoDir(), ws.WeaveS, ws.BuildS)
	for _, u := range ws.Report.Unwoven {
		fmt.Printf("simcheck: warning: seam not owned by the simulator: %s\n", u)
	}
	for _, u := range ws.Report.Warnings {
		fmt.Printf("simcheck: warning: %s\n", u)
	}

	replayDir := filepath.Join(verifDir(), "replays")
	if d := os.Getenv("VERIF_REPLAYS"); d != "" {
		replayDir = d // (experiments running side by side keep their replay files apart)
	}
	os.MkdirAll(replayDir, 0755)
	knownPath := filepath.Join(verifDir(), "known_findings.json")
	results := make([]*workerResult, cfg.Workers)
	errs := make([]string, cfg.Workers)
	var wg sync.WaitGroup
	for i := 0; i < cfg.Workers; i++ {
		wg.Add(1)
		go func(i int) {
			defer wg.Done()
			out := filepath.Join(ws.Dir, fmt.Sprintf("result-%d.json", i))
			cmd := exec.Command(ws.Exec, "run", "--prop", prop, "--tier", *tier, "--seed", fmt.Sprint(seed),
				"--worker", fmt.Sprint(i), "--workers", fmt.Sprint(cfg.Workers), "--count", fmt.Sprint(cfg.Count),
				"--out", out, "--replays", replayDir, "--known", knownPath,
				"--max-seconds", fmt.Sprint(cfg.MaxSec), "--shrink-seconds", fmt.Sprint(cfg.ShrinkSec),
				"--capture-fds", filepath.Join(ws.Dir, fmt.Sprintf("realfds-%d.txt", i)))
			cmd.Env = append(os.Environ(), "GOMAXPROCS=2", "GOMEMLIMIT=3GiB")
			var stderr bytes.Buffer
			cmd.Stderr = &stderr
			cmd.Stdout = &stderr
			done := make(chan error, 1)
			if err := cmd.Start(); err != nil {
				errs[i] = err.Error()
				return
			}
			go func() { done <- cmd.Wait() }()
			select {
			case err := <-done:
				if err != nil {
					crash, _ := ioutil.ReadFile(filepath.Join(ws.Dir, fmt.Sprintf("realfds-%d.txt", i)))
					errs[i] = fmt.Sprintf("worker %d: %v: %s %s", i, err, clipStr(stderr.String(), 2000), clipStr(string(crash), 3000))
				}
			case <-time.After(cfg.Watchdog):
				cmd.Process.Kill()
				errs[i] = fmt.Sprintf("worker %d: watchdog expired after %v", i, cfg.Watchdog)
				return
			}
			b, err := ioutil.ReadFile(out)
			if err != nil {
				if errs[i] == "" {
					errs[i] = fmt.Sprintf("worker %d wrote no result: %v %s", i, err, clipStr(stderr.String(), 2000))
				}
				return
			}
			var r workerResult
			if err := json.Unmarshal(b, &r); err != nil {
				errs[i] = fmt.Sprintf("worker %d: bad result: %v", i, err)
				return
			}
			results[i] = &r
		}(i)
	}
	wg.Wait()
	for _, e := range errs {
		if e != "" {
			fmt.Fprintln(os.Stderr, "simcheck: harness trouble:", e)
			return 2
		}
	}

	// merge
	merged := &workerResult{Prop: prop, Sigs: map[string]bool{}, Stats: map[string]int{}, NotJudged: map[string]int{}}
	for _, r := range results {
		if r == nil {
			fmt.Fprintln(os.Stderr, "simcheck: missing worker result")
			return 2
		}
		if r.Trouble != "" {
			fmt.Fprintln(os.Stderr, "simcheck: harness trouble:", r.Trouble)
			return 2
		}
		merged.Runs += r.Runs
		merged.Evals += r.Evals
		merged.OpsRun += r.OpsRun
		for k, v := range r.Sigs {
			merged.Sigs[k] = merged.Sigs[k] || v
		}
		for k, v := range r.Stats {
			merged.Stats[k] += v
		}
		for k, v := range r.NotJudged {
			merged.NotJudged[k] += v
		}
		if len(merged.Samples) < 3 {
			merged.Samples = append(merged.Samples, r.Samples...)
		}
		merged.Violations = append(merged.Violations, r.Violations...)
		merged.TraceHash ^= r.TraceHash
	}
	sort.Slice(merged.Violations, func(i, j int) bool { return merged.Violations[i].Index < merged.Violations[j].Index })

	// confirm every violation by replaying its minimised file in a fresh process
	known := loadKnownFindings()
	exit := 0
	knownHits := map[string]int{}
	var unlisted []violationRec
	for _, v := range merged.Violations {
		code, out := replayFresh(ws, v.Replay, true)
		want := 1
		if v.Known != "" {
			want = 4
		}
		if code == 0 && v.Known == "" {
			// Alone, in a fresh process, the scenario holds: does the violation need what
			// earlier scenarios of the same worker left behind in the process (a
			// package-level cache or pool in the library)? Re-run growing windows of the
			// worker's sequence in fresh processes.
			if rp := sequenceReplay(ws, prop, *tier, seed, cfg.Workers, v, knownPath, replayDir); rp != "" {
				v.Replay = rp
				v.Class += ":needs-state-from-earlier-scenarios-in-the-process"
				unlisted = append(unlisted, v)
				continue
			}
		}
		if v.Known != "" && code == 1 {
			// the scenario of a known finding also shows, on this tree, a violation that
			// is not listed (reproduced in the fresh process): report that one
			v.Known = ""
			if i := strings.Index(out, "REPLAY-VIOLATION property="); i >= 0 {
				for _, f := range strings.Fields(out[i:]) {
					if strings.HasPrefix(f, "class=") {
						v.Class = strings.TrimPrefix(f, "class=")
						break
					}
				}
			}
			unlisted = append(unlisted, v)
			continue
		}
		if code != want {
			fmt.Fprintf(os.Stderr, "simcheck: harness determinism trouble: minimised replay %s did not reproduce in a fresh process (exit %d)\n%s\n", v.Replay, code, clipStr(out, 3000))
			return 2
		}
		if v.Known != "" {
			knownHits[v.Known]++
			if knownHits[v.Known] == 1 {
				fmt.Printf("KNOWN-FINDING: property=%s %s: %s (replay=%s)\n", prop, v.Known, known[v.Known].What, v.Replay)
			} else {
				os.Remove(v.Replay)
			}
			continue
		}
		unlisted = append(unlisted, v)
	}
	if len(unlisted) > 0 {
		var unowned []string
		for _, u := range ws.Report.Unwoven {
			if !strings.HasPrefix(u, "go statement") && !strings.HasPrefix(u, "select statement") {
				unowned = append(unowned, u)
			}
		}
		if len(unowned) > 0 {
			// the library reaches the real operating system through a call the
			// simulator does not own: what the harness observed may be an artefact
			fmt.Fprintf(os.Stderr, "simcheck: %d violation(s) found, but the tree uses OS calls the simulator does not own (%s); not reporting a VIOLATION on that basis\n", len(unlisted), strings.Join(unowned, ", "))
			return 2
		}
	}
	for _, v := range unlisted {
		fmt.Printf("violation class=%s seed=%d index=%d (%s)\n%s\n", v.Class, v.Seed, v.Index, v.Shrink, v.Msg)
		fmt.Printf("VIOLATION property=%s replay=%s\n", prop, v.Replay)
		exit = 1
	}

	// C15, "across processes": the first scenarios are executed again in two
	// further OS processes (GOMAXPROCS 1 and 16) and the complete outcomes compared
	xprocN, xprocDiff, xprocViol := 0, 0, 0
	if prop == "C15" && exit == 0 {
		n := 3000
		if *tier == "thorough" {
			n = 40000
		}
		if n > cfg.Count {
			n = cfg.Count
		}
		var maps [2]map[string]string
		for i, mp := range []string{"1", "16"} {
			out := filepath.Join(ws.Dir, "xproc-"+mp+".json")
			cmd := exec.Command(ws.Exec, "run", "--prop", prop, "--tier", *tier, "--seed", fmt.Sprint(seed), "--worker", "0", "--workers", "1",
				"--count", fmt.Sprint(n), "--out", os.DevNull, "--hashes", out, "--obs-hashes", "--replays", filepath.Join(ws.Dir, "xr"))
			if i == 1 {
				// the second process meets the scenarios in the opposite order: whatever a
				// process keeps from one evaluation to the next differs between the two
				cmd.Args = append(cmd.Args, "--reverse")
			}
			cmd.Env = append(os.Environ(), "GOMAXPROCS="+mp)
			if o, err := cmd.CombinedOutput(); err != nil {
				fmt.Fprintf(os.Stderr, "simcheck: cross-process leg trouble: %v %s\n", err, clipStr(string(o), 800))
				return 2
			}
			b, err := ioutil.ReadFile(out)
			if err != nil || json.Unmarshal(b, &maps[i]) != nil {
				fmt.Fprintln(os.Stderr, "simcheck: cross-process leg wrote no hashes")
				return 2
			}
		}
		xprocN = len(maps[0])
		var idxs []int
		for k, h := range maps[0] {
			if maps[1][k] != h {
				xprocDiff++
				if n, err := strconv.Atoi(k); err == nil {
					idxs = append(idxs, n)
				}
			}
		}
		sort.Ints(idxs)
		for _, i := range idxs {
			rp := filepath.Join(replayDir, fmt.Sprintf("C15-xproc-s%d-i%d.json", seed, i))
			g := exec.Command(ws.Exec, "gen", "--prop", prop, "--tier", *tier, "--seed", fmt.Sprint(seed), "--index", fmt.Sprint(i), "--as-replay", "c15:cross-process", "-o", rp)
			if o, err := g.CombinedOutput(); err != nil {
				fmt.Fprintf(os.Stderr, "simcheck: cannot materialise scenario %d: %v %s\n", i, err, o)
				return 2
			}
			if same, d := obsTwice(ws, rp); !same {
				fmt.Printf("violation class=c15:cross-process seed=%d index=%d\n%s\n", seed, i, clipStr(d, 1500))
				fmt.Printf("VIOLATION property=C15 replay=%s\n", rp)
				exit = 1
				unlisted = append(unlisted, violationRec{Class: "c15:cross-process", Replay: rp, Seed: seed, Index: i})
				xprocViol++
				break
			}
			os.Remove(rp)
			// alone, the scenario gives the same in two fresh processes: what it gives
			// depends on what the process evaluated before it
			xo := xorderFile{Kind: "xorder", Property: "C15", Class: "c15:depends-on-earlier-evaluations-in-the-process", Tier: *tier, Seed: seed, Count: n, Index: i}
			if differs, d := runXorder(ws, xo); differs {
				xp := filepath.Join(replayDir, fmt.Sprintf("C15-xorder-s%d-i%d.json", seed, i))
				b, _ := json.MarshalIndent(xo, "", " ")
				ioutil.WriteFile(xp, b, 0644)
				fmt.Printf("violation class=%s seed=%d index=%d\n%s\n", xo.Class, seed, i, d)
				fmt.Printf("VIOLATION property=C15 replay=%s\n", xp)
				exit = 1
				unlisted = append(unlisted, violationRec{Class: xo.Class, Replay: xp, Seed: seed, Index: i})
				xprocViol++
				break
			}
		}
		merged.Stats["probe.cross-process-scenarios"] = xprocN
		merged.Stats["probe.cross-process-hash-differences"] = xprocDiff
	}

	// vacuity guard: a batch that judged too little, or never fired the faults it
	// is about, proves nothing and is reported as a broken run (exit 2), never as
	// "held"
	if merged.Runs >= 4000 && exit == 0 {
		if msg := vacuous(prop, merged); msg != "" {
			fmt.Fprintln(os.Stderr, "simcheck: vacuous run:", msg)
			return 2
		}
	}

	wall := time.Since(t0).Seconds()
	if !*noEvidence {
		if err := writeEvidence(prop, *tier, seed, cfg, ws, merged, knownHits, len(unlisted), wall); err != nil {
			fmt.Fprintln(os.Stderr, "simcheck: cannot write evidence:", err)
			return 2
		}
	}
	nontriv := 0
	for _, v := range merged.Sigs {
		if v {
			nontriv++
		}
	}
	knownTotal := 0
	for _, n := range knownHits {
		knownTotal += n
	}
	fmt.Printf("simcheck: %s %s: %d scenarios, %d executions, %d distinct non-trivial signatures, %d violations (%d known), %.1fs; batch-hash=%016x\n",
		prop, *tier, merged.Runs, merged.Evals, nontriv, len(merged.Violations)+xprocViol, knownTotal, wall, merged.TraceHash)
	if merged.Runs == 0 {
		fmt.Fprintln(os.Stderr, "simcheck: no scenario was executed")
		return 2
	}
	return exit
}

// requiredProbes: counters that must be non-zero in a full batch of the property.
var requiredProbes = map[string][]string{
	"C04": {"fault.write.EPIPE", "fault.write.ENOSPC", "fault.write.EIO", "fault.callee.execute", "fault.callee.callback", "fd1.write", "fd2.write"},
	"C05": {"cell.parse-parse|scalar|env+default+stored", "cell.defini-parse|slice|ini+env", "cell.parse-defini|scalar|ini+default"},
	"C09": {"fault.callee.execute", "fault.callee.handler", "fault.callee.callback", "exit", "probe.fault-produced-error", "probe.fault-harmless", "probe.plan-consistent"},
	"C12": {"read.zero", "read.data+EOF"},
	"C14": {"fault.crash-in-write", "fault.read.EIO", "read.zero", "read.data+EOF", "probe.read-error-reported-as-error", "probe.stall>=100"},
	"C15": {"order.permuted", "twin.clock-jump", "twin.observer-insertion", "twin.same-argument-slices-again", "twin.other-parser-in-between", "twin.reader-delivery", "twin.completion-on-fresh-parser"},
}

func vacuous(prop string, m *workerResult) string {
	rejected := m.NotJudged["generated line not accepted"] + m.NotJudged["history rejected"] + m.NotJudged["declaration rejected"] + m.NotJudged["complete file not readable (round-trip is C12's business)"]
	if rejected*10 > m.Runs {
		return fmt.Sprintf("%d of %d scenarios were rejected by the library before the oracle applied (generator and library disagree on what is valid, or the library rejects valid input)", rejected, m.Runs)
	}
	nontriv := 0
	for _, v := range m.Sigs {
		if v {
			nontriv++
		}
	}
	if nontriv < 20 {
		return fmt.Sprintf("only %d distinct non-trivial scenario signatures", nontriv)
	}
	if n := m.Stats["order.unregistered-pointer-key"]; n > 0 {
		return fmt.Sprintf("%d map-iteration events had pointer keys without a canonical rank (the schedule would depend on addresses)", n)
	}
	for _, k := range requiredProbes[prop] {
		if m.Stats[k] == 0 {
			return fmt.Sprintf("reach probe %q stayed at zero", k)
		}
	}
	return ""
}

type seqReplayFile struct {
	Kind     string `json:"kind"` // "sequence"
	Property string `json:"property"`
	Class    string `json:"class"`
	Tier     string `json:"tier"`
	Seed     uint64 `json:"seed"`
	From     int    `json:"from"`
	To       int    `json:"to"`
	Step     int    `json:"step"`
	Message  string `json:"message"`
}

func runSeq(ws *Workspace, f seqReplayFile, knownPath string) (int, string) {
	cmd := exec.Command(ws.Exec, "seq", "--prop", f.Property, "--tier", f.Tier, "--seed", fmt.Sprint(f.Seed), "--from", fmt.Sprint(f.From), "--to", fmt.Sprint(f.To),
		"--step", fmt.Sprint(f.Step), "--class", f.Class, "--known", knownPath)
	out, err := cmd.CombinedOutput()
	if err == nil {
		return 0, string(out)
	}
	if ee, ok := err.(*exec.ExitError); ok {
		return ee.ExitCode(), string(out)
	}
	return 2, err.Error()
}

// sequenceReplay looks for the shortest window of the worker's own scenario
// sequence ending at the violating scenario that reproduces the violation in a
// fresh process, and writes it as a replay file.
func sequenceReplay(ws *Workspace, prop, tier string, seed uint64, workers int, v violationRec, knownPath, replayDir string) string {
	first := v.Index % workers
	for window := 1; ; window *= 2 {
		from := v.Index - window*workers
		if from < first {
			from = first
		}
		f := seqReplayFile{Kind: "sequence", Property: prop, Class: v.Class, Tier: tier, Seed: seed, From: from, To: v.Index, Step: workers}
		code, out := runSeq(ws, f, knownPath)
		if code == 1 {
			f.Message = clipStr(out, 4000)
			b, _ := json.MarshalIndent(f, "", " ")
			path := filepath.Join(replayDir, fmt.Sprintf("%s-seq-s%d-i%d-%d.json", prop, seed, from, v.Index))
			if ioutil.WriteFile(path, b, 0644) != nil {
				return ""
			}
			return path
		}
		if from == first || window > 1<<20 {
			return ""
		}
	}
}

func clipStr(s string, n int) string {
	if len(s) > n {
		return s[:n] + "…"
	}
	return s
}

func replayFresh(ws *Workspace, path string, quiet bool) (int, string) {
	args := []string{"replay", "--known", filepath.Join(verifDir(), "known_findings.json")}
	if quiet {
		args = append(args, "--quiet")
	}
	args = append(args, path)
	cmd := exec.Command(ws.Exec, args...)
	out, err := cmd.CombinedOutput()
	if err == nil {
		return 0, string(out)
	}
	if ee, ok := err.(*exec.ExitError); ok {
		return ee.ExitCode(), string(out)
	}
	return 2, err.Error()
}

// obsTwice runs the scenario of a replay file in two fresh OS processes and
// compares everything observable.
func obsTwice(ws *Workspace, path string) (bool, string) {
	var outs [2]string
	for i, mp := range []string{"1", "16"} {
		cmd := exec.Command(ws.Exec, "obs", path)
		cmd.Env = append(os.Environ(), "GOMAXPROCS="+mp)
		o, _ := cmd.Output()
		outs[i] = string(o)
	}
	if outs[0] == outs[1] {
		return true, ""
	}
	a, b := strings.Split(outs[0], "\n"), strings.Split(outs[1], "\n")
	for i := range a {
		if i >= len(b) || a[i] != b[i] {
			bb := ""
			if i < len(b) {
				bb = b[i]
			}
			return false, fmt.Sprintf("two OS processes, same scenario, same schedule:\n  process A: %s\n  process B: %s", clipStr(a[i], 600), clipStr(bb, 600))
		}
	}
	return false, "outputs differ in length"
}

// xorderFile: a replay file for a scenario whose outcome depends on which other
// scenarios the process evaluated before it. Replaying runs scenarios 0..Count-1 of
// the batch in two fresh processes, forwards and backwards, and compares scenario Index.
type xorderFile struct {
	Kind     string `json:"kind"`
	Property string `json:"property"`
	Class    string `json:"class"`
	Tier     string `json:"tier"`
	Seed     uint64 `json:"seed"`
	Count    int    `json:"count"`
	Index    int    `json:"index"`
}

func runXorder(ws *Workspace, f xorderFile) (bool, string) {
	var hs [2]string
	for i := 0; i < 2; i++ {
		out := filepath.Join(ws.Dir, fmt.Sprintf("xorder-%d.json", i))
		cmd := exec.Command(ws.Exec, "run", "--prop", f.Property, "--tier", f.Tier, "--seed", fmt.Sprint(f.Seed), "--worker", "0", "--workers", "1",
			"--count", fmt.Sprint(f.Count), "--out", os.DevNull, "--hashes", out, "--obs-hashes", "--replays", filepath.Join(ws.Dir, "xr"))
		if i == 1 {
			cmd.Args = append(cmd.Args, "--reverse")
		}
		if o, err := cmd.CombinedOutput(); err != nil {
			return false, fmt.Sprintf("order replay trouble: %v %s", err, clipStr(string(o), 400))
		}
		var m map[string]string
		b, err := ioutil.ReadFile(out)
		if err != nil || json.Unmarshal(b, &m) != nil {
			return false, "order replay wrote no hashes"
		}
		hs[i] = m[fmt.Sprint(f.Index)]
	}
	if hs[0] != hs[1] {
		return true, fmt.Sprintf("scenario %d of the batch (seed %d) gives different results in two fresh processes that evaluate scenarios 0..%d forwards and backwards, although evaluated alone it gives the same in both: its outcome depends on what the process evaluated before (outcome hashes %s / %s)", f.Index, f.Seed, f.Count-1, hs[0], hs[1])
	}
	return false, ""
}

func cmdReplay(args []string) int {
	if len(args) < 1 {
		usage()
	}
	ws, err := prepare(false, false)
	defer ws.Cleanup()
	if err != nil {
		fmt.Fprintln(os.Stderr, "simcheck:", err)
		return 2
	}
	if b, err := ioutil.ReadFile(args[0]); err == nil && strings.Contains(string(b), "\"kind\": \"xorder\"") {
		var f xorderFile
		if json.Unmarshal(b, &f) != nil {
			fmt.Fprintln(os.Stderr, "simcheck: bad order replay file")
			return 2
		}
		differs, d := runXorder(ws, f)
		if differs {
			fmt.Println(d)
			fmt.Printf("VIOLATION property=%s replay=%s\n", f.Property, args[0])
			return 1
		}
		if d != "" {
			fmt.Fprintln(os.Stderr, "simcheck:", d)
			return 2
		}
		fmt.Printf("REPLAY-OK property=%s recorded_class=%s (both orders agree on this tree)\n", f.Property, f.Class)
		return 0
	}
	if b, err := ioutil.ReadFile(args[0]); err == nil && strings.Contains(string(b), "\"kind\": \"sequence\"") {
		var f seqReplayFile
		if json.Unmarshal(b, &f) != nil {
			fmt.Fprintln(os.Stderr, "simcheck: bad sequence replay file")
			return 2
		}
		code, out := runSeq(ws, f, filepath.Join(verifDir(), "known_findings.json"))
		fmt.Print(out)
		if code == 1 || code == 3 {
			fmt.Printf("VIOLATION property=%s replay=%s\n", f.Property, args[0])
			return 1
		}
		if code == 0 {
			return 0
		}
		return 2
	}
	if b, err := ioutil.ReadFile(args[0]); err == nil && strings.Contains(string(b), "\"class\": \"c15:cross-process\"") {
		same, d := obsTwice(ws, args[0])
		if same {
			fmt.Println("REPLAY-OK property=C15 recorded_class=c15:cross-process (both processes agree on this tree)")
			return 0
		}
		fmt.Println(d)
		fmt.Printf("VIOLATION property=C15 replay=%s\n", args[0])
		return 1
	}
	code, out := replayFresh(ws, args[0], false)
	fmt.Print(out)
	var rf struct {
		Property string `json:"property"`
	}
	if b, err := ioutil.ReadFile(args[0]); err == nil {
		json.Unmarshal(b, &rf)
	}
	switch code {
	case 1, 3:
		fmt.Printf("VIOLATION property=%s replay=%s\n", rf.Property, args[0])
		return 1
	case 0:
		return 0
	}
	return 2
}

func cmdExec(args []string) int {
	ws, err := prepare(false, false)
	defer ws.Cleanup()
	if err != nil {
		fmt.Fprintln(os.Stderr, "simcheck:", err)
		return 2
	}
	cmd := exec.Command(ws.Exec, args...)
	cmd.Stdout, cmd.Stderr, cmd.Stdin = os.Stdout, os.Stderr, os.Stdin
	if err := cmd.Run(); err != nil {
		if ee, ok := err.(*exec.ExitError); ok {
			return ee.ExitCode()
		}
		return 2
	}
	return 0
}
