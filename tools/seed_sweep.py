#!/usr/bin/env python3
"""seed_sweep.py [seeds...]: re-run the detecting check of every recorded seeded change under further
VERIF_SEED values (quick tier) and record in meta.json whether it is detected under each."""
import json, glob, os, subprocess, sys, re
seeds = sys.argv[1:] or ['2', '3']
for mp in sorted(glob.glob('/verif/seeded/*/meta.json')):
    m = json.load(open(mp))
    det = [p for p, v in m.get('detected_by', {}).items() if v.get('exit') == 1]
    if not det:
        continue
    p = det[0]
    res = m.setdefault('detected_with_seeds', {})
    for s in seeds:
        if s in res:
            continue
        env = dict(os.environ, VERIF_SEED=s)
        out = subprocess.run(['/verif/tools/try_patch.sh', os.path.join(os.path.dirname(mp), 'patch.diff'), p, '--tier', 'quick'], capture_output=True, text=True, env=env).stdout
        mm = re.search(r'exit=(\d+)', out)
        res[s] = (mm and mm.group(1) == '1')
    json.dump(m, open(mp, 'w'), indent=1)
    print(m['id'], p, res)
