#!/bin/bash
# try_patch.sh <patch.diff> <PROP> [extra simcheck args]
# Applies the patch to /repo, runs the property's check, undoes the patch. Replays go to /tmp/try-replays.
set -u
P=$(readlink -f "$1"); PROP=$2; shift 2
cd /verif
if [ -n "$(git -C /repo status --porcelain)" ]; then echo "/repo not clean"; exit 2; fi
if ! git -C /repo apply "$P" 2>/dev/null; then
  git -C /repo apply --3way "$P" >/dev/null 2>&1 || { echo "TRY $P patch-does-not-apply"; git -C /repo checkout -- . ; git -C /repo reset -q --hard HEAD; exit 2; }
fi
R=${VERIF_DIR:-/verif}/replays
before=$(ls $R 2>/dev/null | sort)
out=$(${VERIF_DIR:-/verif}/bin/simcheck run $PROP --no-evidence "$@" 2>&1); code=$?
git -C /repo checkout -- . ; git -C /repo reset -q --hard HEAD
mkdir -p /tmp/try-replays
for f in $(ls $R | sort); do echo "$before" | grep -qx "$f" || mv "$R/$f" /tmp/try-replays/; done
echo "$out" | grep -E "^(VIOLATION|KNOWN-FINDING|violation class|simcheck: (C|harness|no))" | head -8
echo "TRY $P prop=$PROP exit=$code"
