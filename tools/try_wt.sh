#!/bin/bash
# try_wt.sh <patch.diff> <PROP> [extra simcheck args]
# Like try_patch.sh, but leaves /repo alone: the patch is applied in a scratch worktree of
# /repo HEAD and the check runs against that (VERIF_REPO), replays go to a scratch directory.
set -u
P=$(readlink -f "$1"); PROP=$2; shift 2
WT=$(mktemp -d /tmp/trywt.XXXXXX)
git -C /repo worktree add --detach "$WT/repo" HEAD >/dev/null 2>&1 || { echo "worktree failed"; exit 2; }
cleanup() { git -C /repo worktree remove --force "$WT/repo" >/dev/null 2>&1; rm -rf "$WT"; }
trap cleanup EXIT
if ! git -C "$WT/repo" apply "$P" 2>/dev/null; then
  git -C "$WT/repo" apply --3way "$P" >/dev/null 2>&1 || { echo "TRY $P patch-does-not-apply"; exit 2; }
fi
mkdir -p "$WT/replays"
cd ${VERIF_DIR:-/verif}
out=$(VERIF_REPO="$WT/repo" VERIF_REPLAYS="$WT/replays" bin/simcheck run $PROP --no-evidence "$@" 2>&1); code=$?
echo "$out" | grep -E "^(VIOLATION|KNOWN-FINDING|violation class|simcheck: (C|harness|no))" | head -8
if [ -n "${SHOW:-}" ]; then echo "$out" | grep -m1 -A25 '^violation class'; fi
echo "TRY $P prop=$PROP exit=$code"
