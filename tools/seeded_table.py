#!/usr/bin/env python3
"""seeded_table.py: regenerate the table of seeded changes in DESIGN.md (between the
SEEDED-TABLE markers) from seeded/*/meta.json."""
import json, os, re, glob
rows = []
def key(i):
    m = re.match(r'(C\d+)-w(\d+)-(\d+)', i)
    if m: return (0, m.group(1), int(m.group(2)), int(m.group(3)))
    m = re.match(r'RT(\d*)-A(\d+)', i)
    return (1, '', int(m.group(1) or 1), int(m.group(2)))
ids = sorted((os.path.basename(os.path.dirname(p)) for p in glob.glob('/verif/seeded/*/meta.json')), key=key)
n = det = undet = neutral = 0
for i in ids:
    m = json.load(open('/verif/seeded/%s/meta.json' % i))
    n += 1
    d = m.get('detected_by', {})
    hit = [p for p, v in d.items() if v.get('exit') == 1]
    classes = sorted({c.split(':', 1)[1] if re.match(r'c\d\d:', c) else c for p in hit for c in d[p].get('violation_classes', [])})
    title = (m.get('title') or '').replace('|', '/').replace('\n', ' ')[:100]
    if not m.get('confirmed_by_me', {}).get('ok') and 'demo_with_patch=pass' in m.get('confirmed_by_me', {}).get('result', ''):
        res = 'not a breaking change any more'; neutral += 1
    elif hit:
        res = 'detected by ' + ', '.join(hit); det += 1
    else:
        res = 'not detected (see below)'; undet += 1
    reb = ' (re-applied onto HEAD)' if os.path.exists('/verif/seeded/%s/patch.orig.diff' % i) else ''
    rows.append('| %s | %s%s | %s | %s |' % (i, title, reb, res, ', '.join(classes)))
blind = sum(1 for i in ids if i.startswith('C'))
text = '| id | change (author\'s title) | result | violation classes reported |\n|---|---|---|---|\n' + '\n'.join(rows)
text += '\n\n%d changes recorded (%d from nine waves (the last one held out), %d from the four red-team passes); %d detected by the quick tier of a claimed check, %d not detected (two deliberately, the others from the held-out ninth wave; see below), %d no longer property-breaking.' % (n, blind, n - blind, det, undet, neutral)
s = open('/verif/DESIGN.md').read()
s2 = re.sub(r'(<!-- SEEDED-TABLE-BEGIN -->\n).*?(\n<!-- SEEDED-TABLE-END -->)', lambda mm: mm.group(1) + text + mm.group(2), s, flags=re.S)
assert s2 != s or text in s
open('/verif/DESIGN.md', 'w').write(s2)
print(n, det, undet, neutral)
