#!/usr/bin/env python3
"""record_seeded.py <srcdir> <seeded-id> <PROP> [<PROP2> ...]
Confirms a seeded change in a scratch worktree (tools/confirm_seeded.sh), runs the named
checks against it (tools/try_patch.sh), and stores patch.diff, the demonstration and
meta.json under /verif/seeded/<seeded-id>/."""
import json, os, shutil, subprocess, sys, re
src, sid, props = sys.argv[1], sys.argv[2], sys.argv[3:]
dst = os.path.join('/verif/seeded', sid)
os.makedirs(dst, exist_ok=True)
conf = None  # decided below: a change that a check reports is live; re-confirm only otherwise (or when never confirmed)
meta = {}
mp = os.path.join(src, 'meta.json')
if os.path.exists(mp):
    try: meta = json.load(open(mp))
    except Exception as e: meta = {'agent_meta_unreadable': str(e)}
det = {}
for p in props:
    out = subprocess.run(['/verif/tools/try_patch.sh', os.path.join(src, 'patch.diff'), p, '--tier', 'quick'], capture_output=True, text=True).stdout
    m = re.search(r'exit=(\d+)', out)
    classes = sorted(set(re.findall(r'violation class=(\S+)', out)))
    det[p] = {'exit': int(m.group(1)) if m else None, 'violation_classes': classes,
              'cmd': 'git -C /repo apply patch.diff; bin/simcheck run %s --tier quick; git -C /repo checkout -- .' % p}
old_conf = None
try:
    om = json.load(open(os.path.join(dst, 'meta.json')))
    same_patch = open(os.path.join(dst, 'patch.diff')).read() == open(os.path.join(src, 'patch.diff')).read()
    if om.get('confirmed_by_me', {}).get('ok') and same_patch:
        old_conf = om['confirmed_by_me']['result']
except Exception:
    pass
if old_conf and any(v['exit'] == 1 for v in det.values()) and not os.environ.get('RECONFIRM'):
    conf = old_conf
else:
    conf = subprocess.run(['/verif/tools/confirm_seeded.sh', src], capture_output=True, text=True).stdout.strip().splitlines()[-1]
ok = 'suite_with_patch=ok demo_with_patch=fail demo_without_patch=pass' in conf
out = {
  'id': sid,
  'property': meta.get('property', props[0]),
  'title': meta.get('title'),
  'files': meta.get('files'),
  'what_breaks': meta.get('what_breaks'),
  'needs_to_manifest': meta.get('needs_to_manifest'),
  'author': 'independent sub-agent given only the property text and a scratch worktree',
  'confirmed_by_me': {'cmd': 'tools/confirm_seeded.sh (scratch worktree of /repo HEAD: apply patch, go test -count=1 . x3, demo with patch, demo without patch)', 'result': conf, 'ok': ok},
  'detected_by': det,
  'detected': any(v['exit'] == 1 for v in det.values()),
}
# keep hand-written fields of an earlier record (author of red-team changes, analyses, notes, seed sweeps)
old_meta = os.path.join(dst, 'meta.json')
if os.path.exists(old_meta):
    try:
        old = json.load(open(old_meta))
        for k in ('author', 'analysis', 'note', 'why_the_check_missed_it_at_the_time', 'detected_with_seeds'):
            if k in old:
                out[k] = old[k]
    except Exception:
        pass
if os.path.exists(os.path.join(src, 'patch.orig.diff')):
    out['note'] = 'patch.diff is the sub-agent\'s change re-applied by hand onto /repo HEAD after fix commits touched the same lines; patch.orig.diff is the original against the pinned commit'
    shutil.copy(os.path.join(src, 'patch.orig.diff'), os.path.join(dst, 'patch.orig.diff'))
shutil.copy(os.path.join(src, 'patch.diff'), os.path.join(dst, 'patch.diff'))
shutil.copy(os.path.join(src, 'demo_test.go'), os.path.join(dst, 'demo_test.go.txt'))
json.dump(out, open(os.path.join(dst, 'meta.json'), 'w'), indent=1)
print(sid, 'confirmed' if ok else 'NOT-CONFIRMED', {p: (v['exit'], v['violation_classes']) for p, v in det.items()})
