#!/bin/bash
# rematrix.sh: re-run every recorded seeded change (seeded/*) against its property's
# quick check (plus any other check recorded as detecting it) and every benign change
# (benign/*) against all six checks, from the copies kept under /verif.
cd /verif
# SKIP=<egrep pattern>: ids (seeded and benign) to leave out
for d in seeded/*/; do
  id=$(basename $d)
  if [ -n "${SKIP:-}" ] && echo "$id" | grep -Eq -- "$SKIP"; then continue; fi
  p=$(python3 -c "import json;print(json.load(open('$d/meta.json'))['property'])")
  extra=$(python3 -c "
import json
m=json.load(open('$d/meta.json'))
print(' '.join(k for k in m.get('detected_by',{}) if k!=m['property']))")
  t=$(mktemp -d /tmp/rematrix.XXXXXX)
  cp $d/patch.diff $t/; cp $d/demo_test.go.txt $t/demo_test.go; cp $d/meta.json $t/
  [ -f $d/patch.orig.diff ] && cp $d/patch.orig.diff $t/
  tools/record_seeded.py $t $id $p $extra | tail -1
  rm -rf $t
done
for d in benign/*/; do
  k=$(basename $d)
  if [ -n "${SKIP:-}" ] && echo "$k" | grep -Eq -- "$SKIP"; then continue; fi
  for p in C04 C05 C09 C12 C14 C15; do
    r=$(tools/try_patch.sh $d/patch.diff $p --tier quick 2>&1 | grep -E "^TRY|^violation class" | cut -c1-160 | tr '\n' ' ')
    echo "BENIGN $k $p: $r"
  done
done
echo MATRIX-DONE
