#!/bin/bash
# confirm_seeded.sh <dir with patch.diff and demo_test.go>
# Confirms in a scratch worktree of /repo HEAD: patch applies, suite passes with it (3 runs),
# demo fails with it, demo passes without it. Prints one summary line.
set -u
D=$(readlink -f "$1")
export GOFLAGS=-mod=mod GOPROXY=off GOSUMDB=off GOTOOLCHAIN=local
WT=$(mktemp -d /tmp/confirm.XXXXXX)
git -C /repo worktree add --detach "$WT" HEAD >/dev/null 2>&1 || { echo "worktree failed"; exit 2; }
cleanup() { git -C /repo worktree remove --force "$WT" >/dev/null 2>&1; rm -rf "$WT"; }
trap cleanup EXIT
cd "$WT"
if ! git apply "$D/patch.diff" 2>/dev/null; then
  if ! git apply --3way "$D/patch.diff" >/dev/null 2>&1; then echo "RESULT $1 patch-does-not-apply"; exit 1; fi
fi
suite=ok
for i in 1 2 3; do go test -count=1 . >/tmp/confirm_suite.log 2>&1 || suite=FAIL; done
cp "$D/demo_test.go" ./zz_demo_test.go
if go test -count=1 -run 'TestDemo' . >/tmp/confirm_demo_with.log 2>&1; then with=pass; else with=fail; fi
git checkout -- . >/dev/null 2>&1; git reset -q --hard HEAD >/dev/null 2>&1; cp "$D/demo_test.go" ./zz_demo_test.go
if go test -count=1 -run 'TestDemo' . >/tmp/confirm_demo_without.log 2>&1; then without=pass; else without=fail; fi
echo "RESULT $1 suite_with_patch=$suite demo_with_patch=$with demo_without_patch=$without"
