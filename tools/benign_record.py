#!/usr/bin/env python3
"""benign_record.py <matrix log>: store, in benign/<k>/meta.json, what tools/rematrix.sh reported
for the six checks on each property-preserving change (lines 'BENIGN <k> <PROP>: ... exit=<n>')."""
import json, re, sys, os
res = {}
for line in open(sys.argv[1]):
    m = re.match(r'BENIGN (\S+) (C\d\d): (.*)exit=(\d+)', line)
    if not m:
        m2 = re.match(r'BENIGN (\S+) (C\d\d): .*patch-does-not-apply', line)
        if m2:
            res.setdefault(m2.group(1), {})[m2.group(2)] = {'exit': None, 'note': 'patch does not apply'}
        continue
    k, p, rest, code = m.group(1), m.group(2), m.group(3), int(m.group(4))
    classes = sorted(set(re.findall(r'violation class=(\S+)', rest)))
    res.setdefault(k, {})[p] = {'cmd': 'tools/try_patch.sh benign/%s/patch.diff %s --tier quick' % (k, p), 'exit': code, 'alarms': len(classes), 'violation_classes': classes}
for k, d in res.items():
    mp = '/verif/benign/%s/meta.json' % k
    if not os.path.exists(mp):
        continue
    m = json.load(open(mp))
    m['checked'] = d
    json.dump(m, open(mp, 'w'), indent=1)
    bad = {p: v for p, v in d.items() if v.get('exit') not in (0,)}
    print(k, 'silent' if not bad else bad)
