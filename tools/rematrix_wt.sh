#!/bin/bash
# rematrix_wt.sh [id-regex]: detection-only regression over seeded/* without touching /repo:
# each change is applied in a scratch worktree (tools/try_wt.sh) and its property's quick check
# (then any other check recorded as detecting it) is run there. Prints one line per change.
# J=<n> runs n changes at a time (default 2).
V=${VERIF_DIR:-/verif}
cd $V
one() {
  d=$1; id=$(basename $d)
  p=$(python3 -c "import json;print(json.load(open('$d/meta.json'))['property'])")
  was=$(python3 -c "import json;print(json.load(open('$d/meta.json')).get('detected'))")
  extra=$(python3 -c "
import json
m=json.load(open('$d/meta.json'))
print(' '.join(k for k,v in m.get('detected_by',{}).items() if k!=m['property'] and v.get('exit')==1))")
  res="missed"; by=""
  for q in $p $extra; do
    out=$(VERIF_DIR=$V $V/tools/try_wt.sh $d/patch.diff $q --tier quick 2>&1)
    if echo "$out" | grep -q "exit=1"; then res="detected"; by=$q; cls=$(echo "$out" | grep -o 'violation class=[^ ]*' | sort -u | head -3 | tr '\n' ' '); break; fi
    if echo "$out" | grep -q "exit=2\|does-not-apply\|worktree failed"; then res="trouble"; by=$q; cls=$(echo "$out" | tail -2 | tr '\n' ' '); fi
  done
  echo "REGR $id was_detected=$was now=$res by=$by $cls"
}
export -f one; export V
ls -d seeded/*/ | grep -E "${1:-.}" | xargs -P ${J:-2} -I{} bash -c 'one {}'
echo REGR-DONE
