// Package weave rewrites a scratch copy of go-flags so that every seam where
// the library meets its process (map iteration order, environment, fd 1/2,
// os.Exit, files, clock, tty size) goes through the simrt package, and so that
// every loop iteration and function entry counts a deterministic step.
//
// The rewrite is by type, not by line: it type-checks the package and finds
// the sites itself, so new sites introduced by a later change to the library
// are woven the same way.
package weave

import (
	"bytes"
	"fmt"
	"go/ast"
	"go/build"
	"go/importer"
	"go/parser"
	"go/token"
	"go/types"
	"io/ioutil"
	"os"
	"path/filepath"
	"sort"
	"strings"
)

// Report says what the weaver did.
type Report struct {
	ModulePath string         `json:"module_path"`
	Files      []string       `json:"files"`
	Sites      map[string]int `json:"sites"`     // seam kind → number of sites woven
	SiteList   []string       `json:"site_list"` // "kind file:line"
	Unwoven    []string       `json:"unwoven"`   // os/time/... uses the weaver knows no replacement for
	Warnings   []string       `json:"warnings"`
}

// replacement table: import path → selector → simrt expression.
var table = map[string]map[string]string{
	"os": {
		"Getenv": "simrt.Getenv", "LookupEnv": "simrt.LookupEnv", "Environ": "simrt.Environ", "ExpandEnv": "simrt.ExpandEnv",
		"Setenv": "simrt.Setenv", "Unsetenv": "simrt.Unsetenv", "Clearenv": "simrt.Clearenv",
		"Exit": "simrt.Exit", "Stdout": "simrt.Stdout", "Stderr": "simrt.Stderr", "Args": "simrt.Args()",
		"Open": "simrt.Open", "Create": "simrt.Create", "OpenFile": "simrt.OpenFile", "Stat": "simrt.Stat", "Lstat": "simrt.Stat",
		"Rename": "simrt.Rename", "Remove": "simrt.Remove", "ReadFile": "simrt.ReadFile", "WriteFile": "simrt.WriteFile",
		"CreateTemp": "simrt.CreateTemp", "Chmod": "simrt.Chmod", "RemoveAll": "simrt.Remove", "MkdirAll": "simrt.MkdirAll", "Mkdir": "simrt.Mkdir", "TempDir": "simrt.TempDir",
	},
	"io/ioutil":             {"ReadFile": "simrt.ReadFile", "WriteFile": "simrt.WriteFile", "TempFile": "simrt.CreateTemp"},
	"fmt":                   {"Print": "simrt.Print", "Printf": "simrt.Printf", "Println": "simrt.Println"},
	"time":                  {"Now": "simrt.Now", "Since": "simrt.Since", "Sleep": "simrt.Sleep"},
	"path/filepath":         {"Glob": "simrt.Glob"},
	"golang.org/x/sys/unix": {"IoctlGetWinsize": "simrt.IoctlGetWinsize"},
}

// names in package os (etc.) that are not seams: types, constants, pure helpers.
var harmless = map[string]bool{
	"os.FileMode": true, "os.FileInfo": true, "os.File": true, "os.PathError": true, "os.IsNotExist": true, "os.IsExist": true,
	"os.IsPermission": true, "os.ErrNotExist": true, "os.ErrExist": true, "os.O_RDONLY": true, "os.O_WRONLY": true,
	"os.O_RDWR": true, "os.O_CREATE": true, "os.O_TRUNC": true, "os.O_APPEND": true, "os.O_EXCL": true, "os.PathSeparator": true,
	"io/ioutil.ReadAll": true, "io/ioutil.Discard": true, "io/ioutil.NopCloser": true,
	"os.ModePerm": true, "os.ErrClosed": true, "os.LinkError": true, "os.SyscallError": true, "os.ModeDir": true,
}

type edit struct {
	pos, end int // byte offsets in the file; end==pos for insertion
	text     string
	kind     string
}

// CopyTree copies the library's top-level package (go files, go.mod, go.sum)
// from src to dst. Test files are copied only when withTests is set.
func CopyTree(src, dst string, withTests bool) error {
	ents, err := ioutil.ReadDir(src)
	if err != nil {
		return err
	}
	if err := os.MkdirAll(dst, 0755); err != nil {
		return err
	}
	for _, e := range ents {
		if e.IsDir() && e.Name() != "examples" && e.Name() != ".git" && e.Name() != "simrt" && !strings.HasPrefix(e.Name(), ".") {
			// packages below the root (e.g. internal/...) are copied as they are; only
			// the root package is woven
			copyDirGo(filepath.Join(src, e.Name()), filepath.Join(dst, e.Name()), withTests)
			continue
		}
		if e.IsDir() {
			// the library's tests glob its examples directory
			if withTests && e.Name() == "examples" {
				sub, _ := ioutil.ReadDir(filepath.Join(src, "examples"))
				os.MkdirAll(filepath.Join(dst, "examples"), 0755)
				for _, s := range sub {
					if s.IsDir() {
						continue
					}
					if b, err := ioutil.ReadFile(filepath.Join(src, "examples", s.Name())); err == nil {
						ioutil.WriteFile(filepath.Join(dst, "examples", s.Name()), b, 0644)
					}
				}
			}
			continue
		}
		n := e.Name()
		isGo := strings.HasSuffix(n, ".go")
		if !(isGo || n == "go.mod" || n == "go.sum") {
			continue
		}
		if strings.HasSuffix(n, "_test.go") && !withTests {
			continue
		}
		b, err := ioutil.ReadFile(filepath.Join(src, n))
		if err != nil {
			return err
		}
		if err := ioutil.WriteFile(filepath.Join(dst, n), b, 0644); err != nil {
			return err
		}
	}
	return nil
}

func copyDirGo(src, dst string, withTests bool) {
	ents, err := ioutil.ReadDir(src)
	if err != nil {
		return
	}
	for _, e := range ents {
		if e.IsDir() {
			copyDirGo(filepath.Join(src, e.Name()), filepath.Join(dst, e.Name()), withTests)
			continue
		}
		n := e.Name()
		if !strings.HasSuffix(n, ".go") || (strings.HasSuffix(n, "_test.go") && !withTests) {
			continue
		}
		if b, err := ioutil.ReadFile(filepath.Join(src, n)); err == nil {
			os.MkdirAll(dst, 0755)
			ioutil.WriteFile(filepath.Join(dst, n), b, 0644)
		}
	}
}

// CopySimrt copies the simrt package sources into dst/simrt.
func CopySimrt(simrtSrc, dst string) error {
	out := filepath.Join(dst, "simrt")
	if err := os.MkdirAll(out, 0755); err != nil {
		return err
	}
	ents, err := ioutil.ReadDir(simrtSrc)
	if err != nil {
		return err
	}
	for _, e := range ents {
		if e.IsDir() || !strings.HasSuffix(e.Name(), ".go") || strings.HasSuffix(e.Name(), "_test.go") {
			continue
		}
		b, err := ioutil.ReadFile(filepath.Join(simrtSrc, e.Name()))
		if err != nil {
			return err
		}
		if err := ioutil.WriteFile(filepath.Join(out, e.Name()), b, 0644); err != nil {
			return err
		}
	}
	return nil
}

func modulePath(dir string) (string, error) {
	b, err := ioutil.ReadFile(filepath.Join(dir, "go.mod"))
	if err != nil {
		return "", err
	}
	for _, l := range strings.Split(string(b), "\n") {
		l = strings.TrimSpace(l)
		if strings.HasPrefix(l, "module ") {
			return strings.Trim(strings.TrimSpace(l[len("module "):]), "\""), nil
		}
	}
	return "", fmt.Errorf("no module line in %s/go.mod", dir)
}

// Weave rewrites the non-test Go files of the package in dir in place.
func Weave(dir string) (*Report, error) {
	dir, err := filepath.Abs(dir)
	if err != nil {
		return nil, err
	}
	mod, err := modulePath(dir)
	if err != nil {
		return nil, err
	}
	rep := &Report{ModulePath: mod, Sites: map[string]int{}}

	ctxt := build.Default
	ctxt.Dir = dir
	ents, err := ioutil.ReadDir(dir)
	if err != nil {
		return nil, err
	}
	fset := token.NewFileSet()
	var files []*ast.File
	var names []string
	srcs := map[string][]byte{}
	for _, e := range ents {
		n := e.Name()
		if e.IsDir() || !strings.HasSuffix(n, ".go") || strings.HasSuffix(n, "_test.go") {
			continue
		}
		ok, err := ctxt.MatchFile(dir, n)
		if err != nil {
			return nil, err
		}
		if !ok {
			continue
		}
		full := filepath.Join(dir, n)
		b, err := ioutil.ReadFile(full)
		if err != nil {
			return nil, err
		}
		f, err := parser.ParseFile(fset, full, b, parser.ParseComments)
		if err != nil {
			return nil, fmt.Errorf("parse: %v", err)
		}
		files = append(files, f)
		names = append(names, n)
		srcs[full] = b
	}
	rep.Files = names

	info := &types.Info{
		Types: map[ast.Expr]types.TypeAndValue{},
		Uses:  map[*ast.Ident]types.Object{},
		Defs:  map[*ast.Ident]types.Object{},
	}
	var terrs []string
	conf := types.Config{
		Importer: importer.ForCompiler(fset, "source", nil),
		Error:    func(err error) { terrs = append(terrs, err.Error()) },
	}
	oldwd, _ := os.Getwd()
	os.Chdir(dir)
	pkg, _ := conf.Check(mod, fset, files, info)
	os.Chdir(oldwd)
	if len(terrs) > 0 {
		return nil, fmt.Errorf("type check of %s failed: %s", dir, strings.Join(terrs, "; "))
	}

	qual := func(p *types.Package) string {
		if p == pkg {
			return ""
		}
		return p.Name()
	}

	for fi, f := range files {
		full := filepath.Join(dir, names[fi])
		src := srcs[full]
		tf := fset.File(f.Pos())
		off := func(p token.Pos) int { return tf.Offset(p) }
		site := func(p token.Pos) string {
			return fmt.Sprintf("%s:%d", names[fi], fset.Position(p).Line)
		}
		var leaves []edit
		usedPkgs := map[string]string{} // local name → a symbol we replaced (for the dummy reference)
		counter := 0

		add := func(e edit, where token.Pos) {
			leaves = append(leaves, e)
			rep.Sites[e.kind]++
			rep.SiteList = append(rep.SiteList, e.kind+" "+site(where))
		}

		labeled := map[ast.Stmt]bool{}
		ast.Inspect(f, func(n ast.Node) bool {
			if ls, ok := n.(*ast.LabeledStmt); ok {
				labeled[ls.Stmt] = true
			}
			return true
		})

		// pass 1: leaf edits
		ast.Inspect(f, func(n ast.Node) bool {
			switch x := n.(type) {
			case *ast.SelectorExpr:
				id, ok := x.X.(*ast.Ident)
				if !ok {
					return true
				}
				pn, ok := info.Uses[id].(*types.PkgName)
				if !ok {
					return true
				}
				path := pn.Imported().Path()
				if t, ok := table[path]; ok {
					if repl, ok := t[x.Sel.Name]; ok {
						add(edit{off(x.Pos()), off(x.End()), repl, "seam:" + path + "." + x.Sel.Name}, x.Pos())
						usedPkgs[id.Name] = x.Sel.Name
						return false
					}
				}
				if path == "os" || path == "io/ioutil" || path == "math/rand" || path == "os/signal" || path == "os/exec" || path == "syscall" {
					full := path + "." + x.Sel.Name
					// not seams: sentinel error values (os.ErrPermission, ...), pure predicates
					// and helpers (os.IsTimeout, os.Expand, ...)
					pure := map[string]bool{"Expand": true, "Getpagesize": true, "SameFile": true, "NewSyscallError": true}
					if v, isVar := info.Uses[x.Sel].(*types.Var); isVar && strings.HasPrefix(v.Name(), "Err") {
						return true
					}
					if fn, isFunc := info.Uses[x.Sel].(*types.Func); isFunc && (strings.HasPrefix(fn.Name(), "Is") || pure[fn.Name()]) {
						return true
					}
					if !harmless[full] {
						if _, isType := info.Uses[x.Sel].(*types.TypeName); !isType {
							if _, isConst := info.Uses[x.Sel].(*types.Const); !isConst {
								rep.Unwoven = append(rep.Unwoven, full+" "+site(x.Pos()))
							}
						}
					}
				}
			case *ast.CallExpr:
				sel, ok := x.Fun.(*ast.SelectorExpr)
				if !ok {
					return true
				}
				if lockFn, isLock := map[string]string{"Lock": "MuLock", "Unlock": "MuUnlock", "RLock": "MuRLock", "RUnlock": "MuRUnlock"}[sel.Sel.Name]; isLock && len(x.Args) == 0 {
					if t := info.TypeOf(sel.X); t != nil {
						ts := types.TypeString(t, nil)
						switch ts {
						case "sync.Mutex", "sync.RWMutex":
							add(edit{off(x.Pos()), off(sel.X.Pos()), "simrt." + lockFn + "(&", "lock:" + sel.Sel.Name}, x.Pos())
							leaves = append(leaves, edit{off(sel.X.End()), off(x.End()), ")", ""})
						case "*sync.Mutex", "*sync.RWMutex":
							add(edit{off(x.Pos()), off(sel.X.Pos()), "simrt." + lockFn + "(", "lock:" + sel.Sel.Name}, x.Pos())
							leaves = append(leaves, edit{off(sel.X.End()), off(x.End()), ")", ""})
						}
					}
					return true
				}
				if (sel.Sel.Name == "Get" && len(x.Args) == 0) || (sel.Sel.Name == "Put" && len(x.Args) == 1) {
					if t := info.TypeOf(sel.X); t != nil {
						ts := types.TypeString(t, nil)
						if ts == "sync.Pool" || ts == "*sync.Pool" {
							amp := "&"
							if ts == "*sync.Pool" {
								amp = ""
							}
							// a pool that the garbage collector empties at times of its own choosing is a
							// source of nondeterminism: route it to a plain free list owned by the simulator
							add(edit{off(x.Pos()), off(sel.X.Pos()), "simrt.Pool" + sel.Sel.Name + "(" + amp, "pool:" + sel.Sel.Name}, x.Pos())
							if sel.Sel.Name == "Get" {
								leaves = append(leaves, edit{off(sel.X.End()), off(x.End()), ")", ""})
							} else {
								leaves = append(leaves, edit{off(sel.X.End()), off(x.Lparen) + 1, ", ", ""})
							}
							return true
						}
					}
				}
				if sel.Sel.Name != "MapKeys" && sel.Sel.Name != "MapRange" {
					return true
				}
				t := info.TypeOf(sel.X)
				if t == nil || types.TypeString(t, nil) != "reflect.Value" {
					return true
				}
				if sel.Sel.Name == "MapKeys" {
					add(edit{off(x.Pos()), off(x.Pos()), fmt.Sprintf("simrt.PermuteValues(%q, ", site(x.Pos())), "sched:MapKeys"}, x.Pos())
					leaves = append(leaves, edit{off(x.End()), off(x.End()), ")", ""})
				} else {
					// v.MapRange() → simrt.MapRange(site, v)
					add(edit{off(x.Pos()), off(x.Pos()), fmt.Sprintf("simrt.MapRange(%q, ", site(x.Pos())), "sched:MapRange"}, x.Pos())
					leaves = append(leaves, edit{off(sel.X.End()), off(x.End()), ")", ""})
				}
			case *ast.GoStmt:
				// the simulator owns one thread; a goroutine would escape it
				rep.Unwoven = append(rep.Unwoven, "go statement "+site(x.Pos()))
			case *ast.SelectStmt:
				rep.Unwoven = append(rep.Unwoven, "select statement "+site(x.Pos()))
			case *ast.ForStmt:
				leaves = append(leaves, edit{off(x.Body.Lbrace) + 1, off(x.Body.Lbrace) + 1, " simrt.Tick(); ", ""})
				rep.Sites["tick:for"]++
			case *ast.FuncDecl:
				if x.Body != nil {
					leaves = append(leaves, edit{off(x.Body.Lbrace) + 1, off(x.Body.Lbrace) + 1, " simrt.Tick(); ", ""})
					rep.Sites["tick:func"]++
				}
			case *ast.FuncLit:
				leaves = append(leaves, edit{off(x.Body.Lbrace) + 1, off(x.Body.Lbrace) + 1, " simrt.Tick(); ", ""})
				rep.Sites["tick:func"]++
			}
			return true
		})

		render := func(from, to token.Pos) string {
			a, b := off(from), off(to)
			var in []edit
			for _, e := range leaves {
				if e.pos >= a && e.end <= b {
					in = append(in, e)
				}
			}
			return applyEdits(src[a:b], in, a)
		}

		// pass 2: range statements
		var ranges []edit
		var consumed [][2]int
		var werr error
		ast.Inspect(f, func(n ast.Node) bool {
			rs, ok := n.(*ast.RangeStmt)
			if !ok {
				return true
			}
			t := info.TypeOf(rs.X)
			var mt *types.Map
			if t != nil {
				mt, _ = t.Underlying().(*types.Map)
			}
			if mt == nil {
				ranges = append(ranges, edit{off(rs.Body.Lbrace) + 1, off(rs.Body.Lbrace) + 1, " simrt.Tick(); ", ""})
				rep.Sites["tick:range"]++
				return true
			}
			counter++
			kv := fmt.Sprintf("simK%d", counter)
			xs := render(rs.X.Pos(), rs.X.End())
			kt := types.TypeString(mt.Key(), qual)
			tok := ":="
			if rs.Tok == token.ASSIGN {
				tok = "="
			}
			pre, post := "", ""
			mexpr := "(" + xs + ")"
			if !simpleExpr(rs.X) {
				if labeled[rs] {
					werr = fmt.Errorf("%s: labeled range over a non-trivial map expression cannot be woven", site(rs.Pos()))
					return false
				}
				mv := fmt.Sprintf("simM%d", counter)
				pre = fmt.Sprintf("{ %s := %s; ", mv, xs)
				post = " }"
				mexpr = mv
				xs = mv
			}
			// An entry deleted by the loop body before it is reached is not produced
			// by a range statement: skip keys that are gone (not for floating-point
			// keys, where a NaN key is never found by lookup although it is ranged over).
			gone := fmt.Sprintf("if _, simOk%d := %s[%s.(%s)]; !simOk%d { continue }; ", counter, mexpr, kv, kt, counter)
			if bt, ok := mt.Key().Underlying().(*types.Basic); ok && bt.Info()&(types.IsFloat|types.IsComplex) != 0 {
				gone = ""
			}
			if _, ok := mt.Key().Underlying().(*types.Interface); ok {
				gone = ""
			}
			var b bytes.Buffer
			b.WriteString(pre)
			if rs.Key == nil {
				fmt.Fprintf(&b, "for _, %s := range simrt.Order(%q, %s) { simrt.Tick(); %s", kv, site(rs.Pos()), xs, gone)
				if gone == "" {
					fmt.Fprintf(&b, "_ = %s; ", kv)
				}
			} else {
				fmt.Fprintf(&b, "for _, %s := range simrt.Order(%q, %s) { simrt.Tick(); %s", kv, site(rs.Pos()), xs, gone)
				if !isBlank(rs.Key) {
					fmt.Fprintf(&b, "%s %s %s.(%s); ", render(rs.Key.Pos(), rs.Key.End()), tok, kv, kt)
				}
				if rs.Value != nil && !isBlank(rs.Value) {
					fmt.Fprintf(&b, "%s %s %s[%s.(%s)]; ", render(rs.Value.Pos(), rs.Value.End()), tok, mexpr, kv, kt)
				}
			}
			ranges = append(ranges, edit{off(rs.For), off(rs.Body.Lbrace) + 1, b.String(), "sched:range"})
			consumed = append(consumed, [2]int{off(rs.For), off(rs.Body.Lbrace) + 1})
			if post != "" {
				ranges = append(ranges, edit{off(rs.End()), off(rs.End()), post, ""})
			}
			rep.Sites["sched:range"]++
			rep.SiteList = append(rep.SiteList, "sched:range "+site(rs.Pos()))
			if assignsIndexOf(rs.Body, rs.X, src, off) {
				rep.Warnings = append(rep.Warnings, site(rs.Pos())+": loop body assigns to the ranged map")
			}
			return true
		})
		if werr != nil {
			return nil, werr
		}

		var all []edit
		for _, e := range leaves {
			inside := false
			for _, c := range consumed {
				if e.pos >= c[0] && e.end <= c[1] {
					inside = true
				}
			}
			if !inside {
				all = append(all, e)
			}
		}
		all = append(all, ranges...)

		// import + dummy references so that imports stay used
		imp := fmt.Sprintf("; import simrt %q", mod+"/simrt")
		all = append(all, edit{off(f.Name.End()), off(f.Name.End()), imp, ""})
		var tail bytes.Buffer
		tail.WriteString("\nvar _ = simrt.Tick\n")
		var locals []string
		for l := range usedPkgs {
			locals = append(locals, l)
		}
		sort.Strings(locals)
		for _, l := range locals {
			fmt.Fprintf(&tail, "var _ = %s.%s\n", l, usedPkgs[l])
		}
		out := applyEdits(src, all, 0) + tail.String()
		if err := ioutil.WriteFile(full, []byte(out), 0644); err != nil {
			return nil, err
		}
	}
	sort.Strings(rep.SiteList)
	sort.Strings(rep.Unwoven)
	// Sub-packages of the library are copied but not woven: whatever they do with
	// the operating system happens outside the simulation. They are scanned for
	// imports of the seam packages, and each use is listed as not owned.
	scanSubPackages(dir, rep)
	return rep, nil
}

func scanSubPackages(root string, rep *Report) {
	seam := map[string]bool{"os": true, "io/ioutil": true, "time": true, "math/rand": true, "os/exec": true, "os/signal": true, "syscall": true,
		"path/filepath": true, "sync": true, "net": true, "log": true, "golang.org/x/sys/unix": true}
	filepath.Walk(root, func(path string, info os.FileInfo, err error) error {
		if err != nil {
			return nil
		}
		if info.IsDir() {
			n := info.Name()
			if path != root && (n == "simrt" || n == "examples" || n == "testdata" || strings.HasPrefix(n, ".")) {
				return filepath.SkipDir
			}
			return nil
		}
		if filepath.Dir(path) == root || !strings.HasSuffix(path, ".go") || strings.HasSuffix(path, "_test.go") {
			return nil
		}
		f, err := parser.ParseFile(token.NewFileSet(), path, nil, parser.ImportsOnly)
		if err != nil {
			return nil
		}
		for _, im := range f.Imports {
			ip := strings.Trim(im.Path.Value, "\"")
			if seam[ip] {
				rel, _ := filepath.Rel(root, path)
				rep.Unwoven = append(rep.Unwoven, "sub-package file "+rel+" imports "+ip+" (sub-packages are not woven)")
			}
		}
		return nil
	})
}

func isBlank(e ast.Expr) bool {
	id, ok := e.(*ast.Ident)
	return ok && id.Name == "_"
}

func simpleExpr(e ast.Expr) bool {
	switch x := e.(type) {
	case *ast.Ident:
		return true
	case *ast.SelectorExpr:
		return simpleExpr(x.X)
	case *ast.ParenExpr:
		return simpleExpr(x.X)
	case *ast.StarExpr:
		return simpleExpr(x.X)
	}
	return false
}

func assignsIndexOf(body *ast.BlockStmt, m ast.Expr, src []byte, off func(token.Pos) int) bool {
	mt := string(src[off(m.Pos()):off(m.End())])
	found := false
	ast.Inspect(body, func(n ast.Node) bool {
		as, ok := n.(*ast.AssignStmt)
		if !ok {
			return true
		}
		for _, l := range as.Lhs {
			if ix, ok := l.(*ast.IndexExpr); ok {
				if string(src[off(ix.X.Pos()):off(ix.X.End())]) == mt {
					found = true
				}
			}
		}
		return true
	})
	return found
}

// applyEdits applies non-overlapping edits (offsets relative to base) to src.
func applyEdits(src []byte, edits []edit, base int) string {
	es := make([]edit, len(edits))
	copy(es, edits)
	sort.SliceStable(es, func(i, j int) bool {
		if es[i].pos != es[j].pos {
			return es[i].pos < es[j].pos
		}
		return es[i].end < es[j].end
	})
	var b bytes.Buffer
	cur := 0
	for _, e := range es {
		p, q := e.pos-base, e.end-base
		if p < cur {
			// overlapping edit: keep the outer one, drop this
			continue
		}
		b.Write(src[cur:p])
		b.WriteString(e.text)
		cur = q
	}
	b.Write(src[cur:])
	return b.String()
}
