package simrt

import (
	"fmt"
	"reflect"
	"sort"
)

// Schedule decides, for every map-iteration event of the woven code, in which
// order the keys are delivered. It is the only "scheduler" decision this
// single-threaded library is exposed to.
//
// If Explicit is non-nil, event i uses Explicit[i] when it is a permutation of
// the right length and identity otherwise (so a minimiser can blank entries
// one by one). Otherwise Mode decides: "id", "rev", "rot" (rotate by K) or
// "seeded" (Fisher-Yates from Seed and the event index).
type Schedule struct {
	Mode     string  `json:"mode,omitempty"`
	Seed     uint64  `json:"seed,omitempty"`
	K        int     `json:"k,omitempty"`
	Explicit [][]int `json:"explicit,omitempty"`

	// recorded while running
	Applied [][]int  `json:"-"`
	Sites   []string `json:"-"`
	n       int
}

func splitmix(x uint64) uint64 {
	x += 0x9e3779b97f4a7c15
	z := x
	z = (z ^ (z >> 30)) * 0xbf58476d1ce4e5b9
	z = (z ^ (z >> 27)) * 0x94d049bb133111eb
	return z ^ (z >> 31)
}

func (s *Schedule) next(site string, n int) []int {
	idx := s.n
	s.n++
	perm := make([]int, n)
	for i := range perm {
		perm[i] = i
	}
	if s.Explicit != nil {
		if idx < len(s.Explicit) && validPerm(s.Explicit[idx], n) {
			copy(perm, s.Explicit[idx])
		}
	} else {
		switch s.Mode {
		case "rev":
			for i := range perm {
				perm[i] = n - 1 - i
			}
		case "rot":
			if n > 0 {
				for i := range perm {
					perm[i] = (i + s.K%n + n) % n
				}
			}
		case "seeded":
			st := splitmix(s.Seed ^ (uint64(idx)+1)*0x2545F4914F6CDD1D)
			for i := n - 1; i > 0; i-- {
				st = splitmix(st)
				j := int(st % uint64(i+1))
				perm[i], perm[j] = perm[j], perm[i]
			}
		}
	}
	s.Applied = append(s.Applied, perm)
	s.Sites = append(s.Sites, fmt.Sprintf("%s/%d", site, n))
	return perm
}

func validPerm(p []int, n int) bool {
	if len(p) != n {
		return false
	}
	seen := make([]bool, n)
	for _, v := range p {
		if v < 0 || v >= n || seen[v] {
			return false
		}
		seen[v] = true
	}
	return true
}

func isIdentity(p []int) bool {
	for i, v := range p {
		if i != v {
			return false
		}
	}
	return true
}

// RegisterPtr gives a pointer a canonical rank (declaration order, as walked
// by the harness) so that maps keyed by pointers have a run-independent base
// order.
func RegisterPtr(p interface{}) {
	if W == nil {
		return
	}
	v := reflect.ValueOf(p)
	if v.Kind() != reflect.Ptr || v.IsNil() {
		return
	}
	a := v.Pointer()
	if _, ok := W.ptrReg[a]; !ok {
		W.ptrNext++
		W.ptrReg[a] = W.ptrNext
	}
}

func keyRank(v reflect.Value) (int, bool) {
	if W == nil {
		return 0, false
	}
	r, ok := W.ptrReg[v.Pointer()]
	return r, ok
}

// lessKey is the canonical (hash-seed independent) order of map keys.
func lessKey(a, b reflect.Value) bool {
	for a.Kind() == reflect.Interface && !a.IsNil() {
		a = a.Elem()
	}
	for b.Kind() == reflect.Interface && !b.IsNil() {
		b = b.Elem()
	}
	if a.Kind() != b.Kind() {
		return a.Kind() < b.Kind()
	}
	switch a.Kind() {
	case reflect.String:
		return a.String() < b.String()
	case reflect.Int, reflect.Int8, reflect.Int16, reflect.Int32, reflect.Int64:
		return a.Int() < b.Int()
	case reflect.Uint, reflect.Uint8, reflect.Uint16, reflect.Uint32, reflect.Uint64, reflect.Uintptr:
		return a.Uint() < b.Uint()
	case reflect.Float32, reflect.Float64:
		return a.Float() < b.Float()
	case reflect.Bool:
		return !a.Bool() && b.Bool()
	case reflect.Ptr, reflect.Chan, reflect.UnsafePointer, reflect.Func:
		ra, oka := keyRank(a)
		rb, okb := keyRank(b)
		if oka && okb {
			return ra < rb
		}
		if oka != okb {
			return oka
		}
		if W != nil {
			W.Stat("order.unregistered-pointer-key")
		}
		return a.Pointer() < b.Pointer()
	case reflect.Struct, reflect.Array:
		return fmt.Sprintf("%#v", a.Interface()) < fmt.Sprintf("%#v", b.Interface())
	}
	return false
}

func sortValues(vs []reflect.Value) {
	sort.SliceStable(vs, func(i, j int) bool { return lessKey(vs[i], vs[j]) })
}

func (w *World) orderEvent(site string, n int, perm []int) {
	if n >= 2 {
		w.Stat("order.n>=2")
		if !isIdentity(perm) {
			w.Stat("order.permuted")
		}
	}
	w.Event("order %s n=%d perm=%v", site, n, perm)
}

// Order returns the keys of map m in the order the schedule prescribes for
// this event. In pass-through mode the runtime's own (random) order is kept.
func Order(site string, m interface{}) []interface{} {
	v := reflect.ValueOf(m)
	if !v.IsValid() || v.Kind() != reflect.Map {
		return nil
	}
	if W == nil {
		out := make([]interface{}, 0, v.Len())
		it := v.MapRange()
		for it.Next() {
			out = append(out, it.Key().Interface())
		}
		return out
	}
	keys := v.MapKeys()
	sortValues(keys)
	perm := W.Sched.next(site, len(keys))
	W.orderEvent(site, len(keys), perm)
	out := make([]interface{}, len(keys))
	for i, p := range perm {
		out[i] = keys[p].Interface()
	}
	return out
}

// PermuteValues reorders the result of reflect.Value.MapKeys.
func PermuteValues(site string, keys []reflect.Value) []reflect.Value {
	if W == nil {
		return keys
	}
	ks := make([]reflect.Value, len(keys))
	copy(ks, keys)
	sortValues(ks)
	perm := W.Sched.next(site, len(ks))
	W.orderEvent(site, len(ks), perm)
	out := make([]reflect.Value, len(ks))
	for i, p := range perm {
		out[i] = ks[p]
	}
	return out
}

// MapIter replaces *reflect.MapIter for woven reflect.Value.MapRange calls.
type MapIter struct {
	m    reflect.Value
	keys []reflect.Value
	i    int
}

// MapRange replaces v.MapRange().
func MapRange(site string, v reflect.Value) *MapIter {
	return &MapIter{m: v, keys: PermuteValues(site, v.MapKeys()), i: -1}
}

// Next advances the iterator.
func (it *MapIter) Next() bool {
	Tick()
	it.i++
	return it.i < len(it.keys)
}

// Key returns the current key.
func (it *MapIter) Key() reflect.Value { return it.keys[it.i] }

// Value returns the current value.
func (it *MapIter) Value() reflect.Value { return it.m.MapIndex(it.keys[it.i]) }
