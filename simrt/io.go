package simrt

import (
	"errors"
	"fmt"
	"io"
	"io/ioutil"
	"os"
	"path/filepath"
	"sort"
	"strings"
	"syscall"
	"time"

	"golang.org/x/sys/unix"
)

// ---- errors ---------------------------------------------------------------

// ErrByName maps the fault names used in scenarios to error values.
func ErrByName(name string) error {
	switch name {
	case "", "none":
		return nil
	case "EOF":
		return io.EOF
	case "EIO":
		return syscall.EIO
	case "EPIPE":
		return syscall.EPIPE
	case "ENOSPC":
		return syscall.ENOSPC
	case "EINTR":
		return syscall.EINTR
	case "EACCES":
		return syscall.EACCES
	case "ENOENT":
		return syscall.ENOENT
	case "EISDIR":
		return syscall.EISDIR
	case "EEXIST":
		return syscall.EEXIST
	case "UNEXPECTED_EOF":
		return io.ErrUnexpectedEOF
	}
	return errors.New("simrt: injected " + name)
}

// ---- sinks (fd 1, fd 2, and io.Writer arguments) ---------------------------

// WriteFault makes the write call with index At (0-based) of a sink fail:
// Accept bytes are taken (clamped to the write's size), then Err is returned.
// Sticky faults repeat on every later write.
type WriteFault struct {
	At     int    `json:"at"`
	Accept int    `json:"accept"`
	Err    string `json:"err"`
	Sticky bool   `json:"sticky,omitempty"`
}

// Sink is a fault-injecting io.Writer that records what reached it.
type Sink struct {
	Name   string
	Data   []byte
	Sizes  []int // size of every Write call as requested
	Faults []WriteFault
	Fired  int
	calls  int
}

func (s *Sink) Write(p []byte) (int, error) {
	idx := s.calls
	s.calls++
	s.Sizes = append(s.Sizes, len(p))
	for _, f := range s.Faults {
		if f.At == idx || (f.Sticky && idx > f.At) {
			n := f.Accept
			if n > len(p) {
				n = len(p)
			}
			if n < 0 {
				n = 0
			}
			s.Data = append(s.Data, p[:n]...)
			s.Fired++
			if W != nil {
				W.Stat("fault.write." + f.Err)
				W.Event("write %s #%d %d/%d err=%s", s.Name, idx, n, len(p), f.Err)
			}
			return n, ErrByName(f.Err)
		}
	}
	s.Data = append(s.Data, p...)
	if W != nil {
		W.Event("write %s #%d %d", s.Name, idx, len(p))
	}
	return len(p), nil
}

// WriteString makes Sink usable where *os.File's WriteString was used.
func (s *Sink) WriteString(str string) (int, error) { return s.Write([]byte(str)) }

// ResetCalls restarts the numbering of Write calls (fault plans count per operation).
func (s *Sink) ResetCalls() { s.calls = 0; s.Sizes = nil }

// Calls is the number of Write calls seen.
func (s *Sink) Calls() int { return s.calls }

// StdStream stands in for os.Stdout / os.Stderr in woven code.
type StdStream struct{ fd int }

// Stdout and Stderr replace os.Stdout and os.Stderr.
var (
	Stdout = &StdStream{fd: 1}
	Stderr = &StdStream{fd: 2}
)

func (s *StdStream) real() *os.File {
	if s.fd == 1 {
		return os.Stdout // current value: tests swap it for a pipe
	}
	return os.Stderr
}

func (s *StdStream) sink() *Sink {
	if s.fd == 1 {
		return W.Fd1
	}
	return W.Fd2
}

func (s *StdStream) Write(p []byte) (int, error) {
	if W == nil {
		return s.real().Write(p)
	}
	W.Stat(fmt.Sprintf("fd%d.write", s.fd))
	return s.sink().Write(p)
}

// WriteString mirrors (*os.File).WriteString.
func (s *StdStream) WriteString(str string) (int, error) { return s.Write([]byte(str)) }

// Fd mirrors (*os.File).Fd.
func (s *StdStream) Fd() uintptr { return uintptr(s.fd) }

// Sync mirrors (*os.File).Sync.
func (s *StdStream) Sync() error {
	if W == nil {
		return s.real().Sync()
	}
	return nil
}

// Name mirrors (*os.File).Name.
func (s *StdStream) Name() string {
	if s.fd == 1 {
		return "/dev/stdout"
	}
	return "/dev/stderr"
}

// Print, Printf, Println replace fmt.Print* (which write to os.Stdout).
func Print(a ...interface{}) (int, error) { return fmt.Fprint(Stdout, a...) }

// Printf replaces fmt.Printf.
func Printf(format string, a ...interface{}) (int, error) { return fmt.Fprintf(Stdout, format, a...) }

// Println replaces fmt.Println.
func Println(a ...interface{}) (int, error) { return fmt.Fprintln(Stdout, a...) }

// ---- readers ---------------------------------------------------------------

// ReadStep is one Read call's outcome: deliver up to N bytes (0 = a zero-byte
// read) and return Err with them ("" none, "EOF" = data together with io.EOF,
// anything else an I/O error).
type ReadStep struct {
	N   int    `json:"n"`
	Err string `json:"err,omitempty"`
}

// Reader is a fault-injecting io.Reader over fixed bytes. After Steps is
// exhausted it delivers Rest bytes per call (0 = everything) and then io.EOF.
type Reader struct {
	Data  []byte
	Steps []ReadStep
	Rest  int

	// FailAt > 0: the stream fails with FailErr exactly when FailAt bytes have
	// been delivered (together with the last of them if FailWith is set, on the
	// following call otherwise), whatever sizes the caller reads with.
	FailAt   int
	FailErr  string
	FailWith bool

	pos, step int
	Calls     int
	ZeroReads int
	ErrFired  string
	failed    error
}

func (r *Reader) Read(p []byte) (int, error) {
	r.Calls++
	if r.failed != nil {
		return 0, r.failed
	}
	if len(p) == 0 {
		return 0, nil
	}
	want := r.Rest
	errName := ""
	planned := false
	if r.step < len(r.Steps) {
		st := r.Steps[r.step]
		r.step++
		want = st.N
		errName = st.Err
		planned = true
	}
	if r.FailAt > 0 && r.pos >= r.FailAt {
		r.failed = ErrByName(r.FailErr)
		r.ErrFired = r.FailErr
		if W != nil {
			W.Stat("fault.read." + r.FailErr)
			W.Event("read 0 err=%v (at byte %d)", r.failed, r.pos)
		}
		return 0, r.failed
	}
	remaining := len(r.Data) - r.pos
	if r.FailAt > 0 && remaining > r.FailAt-r.pos {
		remaining = r.FailAt - r.pos
	}
	if remaining == 0 && errName == "" {
		if W != nil {
			W.Event("read eof")
		}
		return 0, io.EOF
	}
	if !planned && want <= 0 {
		want = remaining
	}
	if want > remaining {
		want = remaining
	}
	if want > len(p) {
		want = len(p)
	}
	n := copy(p, r.Data[r.pos:r.pos+want])
	r.pos += n
	var err error
	if r.FailAt > 0 && r.pos >= r.FailAt && r.FailWith && errName == "" {
		errName = r.FailErr
	}
	if errName != "" {
		if errName == "EOF" {
			// data together with EOF is only legal when it is the end
			if r.pos == len(r.Data) {
				err = io.EOF
				r.failed = io.EOF
				if W != nil && n > 0 {
					W.Stat("read.data+EOF")
				}
			}
		} else {
			err = ErrByName(errName)
			r.failed = err
			r.ErrFired = errName
			if W != nil {
				W.Stat("fault.read." + errName)
			}
		}
	}
	if n == 0 && err == nil {
		r.ZeroReads++
		if W != nil {
			W.Stat("read.zero")
		}
	}
	if W != nil {
		W.Event("read %d err=%v", n, err)
	}
	return n, err
}

// ---- disk ------------------------------------------------------------------

// Node is one file (or directory) of the simulated disk.
type Node struct {
	Data  []byte
	IsDir bool
	// Stream: not a regular file (a pipe, a device): its size is reported as 0,
	// the bytes are there to be read all the same
	Stream bool
}

// Disk is the simulated file system: a flat name → node map plus per-name
// fault plans. Only bytes in Node.Data survive a crash.
type Disk struct {
	Nodes map[string]*Node

	OpenErr   map[string]string     // name → error on Open/Create
	ReadPlan  map[string][]ReadStep // name → chunking/faults for reads
	ReadRest  map[string]int
	ReadFail  map[string][3]string // name → {byte offset, error, "with" or ""}
	WritePlan map[string][]WriteFault
	// CrashAfter kills the process once this many bytes in total have been
	// written to the named file in this boot (the bytes up to the limit reach
	// the disk). Absent = never.
	CrashAfter map[string]int
	// CrashAfterTotal > 0: the process dies once this many bytes in total have been
	// written to ANY file in this boot (so a writer that goes through a temporary
	// file and renames it is torn just the same).
	CrashAfterTotal int
	writtenTotal    int

	Writes map[string][]int // sizes of every write call per file, recorded
}

// NewDisk returns an empty disk.
func NewDisk() *Disk {
	return &Disk{
		Nodes:      map[string]*Node{},
		OpenErr:    map[string]string{},
		ReadPlan:   map[string][]ReadStep{},
		ReadRest:   map[string]int{},
		ReadFail:   map[string][3]string{},
		WritePlan:  map[string][]WriteFault{},
		CrashAfter: map[string]int{},
		Writes:     map[string][]int{},
	}
}

// ArmCrash makes the process die after n more bytes written to any file (0 = disarm).
func (d *Disk) ArmCrash(n int) {
	d.CrashAfterTotal = n
	d.writtenTotal = 0
}

// File stands in for *os.File in woven code.
type File struct {
	name    string
	node    *Node
	rd      *Reader
	wr      *Sink
	written int
	woff    int  // write offset
	app     bool // O_APPEND
	closed  bool
	real    *os.File
}

func (f *File) Read(p []byte) (int, error) {
	if f.real != nil {
		return f.real.Read(p)
	}
	if f.closed {
		return 0, os.ErrClosed
	}
	if f.rd == nil {
		return 0, syscall.EBADF
	}
	return f.rd.Read(p)
}

// store puts b at the file's write offset (overwriting, then extending).
func (f *File) store(b []byte) {
	if f.app {
		f.woff = len(f.node.Data)
	}
	for i := 0; i < len(b); i++ {
		if f.woff < len(f.node.Data) {
			f.node.Data[f.woff] = b[i]
		} else {
			f.node.Data = append(f.node.Data, b[i])
		}
		f.woff++
	}
}

func (f *File) Write(p []byte) (int, error) {
	if f.real != nil {
		return f.real.Write(p)
	}
	if f.closed {
		return 0, os.ErrClosed
	}
	if f.wr == nil {
		return 0, syscall.EBADF
	}
	d := W.Disk
	d.Writes[f.name] = append(d.Writes[f.name], len(p))
	if d.CrashAfterTotal > 0 && d.writtenTotal+len(p) >= d.CrashAfterTotal {
		take := d.CrashAfterTotal - d.writtenTotal
		if take < 0 {
			take = 0
		}
		if take > len(p) {
			take = len(p)
		}
		f.store(p[:take])
		f.written += take
		d.writtenTotal += take
		W.Stat("fault.crash-in-write")
		W.Event("crash in write %s after %d bytes in this boot", f.name, d.writtenTotal)
		panic(CrashPanic{Where: f.name})
	}
	d.writtenTotal += len(p)
	if limit, ok := d.CrashAfter[f.name]; ok && f.written+len(p) >= limit {
		take := limit - f.written
		if take < 0 {
			take = 0
		}
		if take > len(p) {
			take = len(p)
		}
		f.store(p[:take])
		f.written += take
		W.Stat("fault.crash-in-write")
		W.Event("crash in write %s after %d bytes", f.name, f.written)
		panic(CrashPanic{Where: f.name})
	}
	before := len(f.wr.Data)
	n, err := f.wr.Write(p)
	f.store(f.wr.Data[before:])
	f.wr.Data = f.wr.Data[:0]
	f.written += n
	return n, err
}

// WriteString mirrors (*os.File).WriteString.
func (f *File) WriteString(s string) (int, error) { return f.Write([]byte(s)) }

// Close mirrors (*os.File).Close.
func (f *File) Close() error {
	if f.real != nil {
		return f.real.Close()
	}
	if f.closed {
		return os.ErrClosed
	}
	f.closed = true
	W.Event("close %s", f.name)
	return nil
}

// Chmod mirrors (*os.File).Chmod.
func (f *File) Chmod(mode os.FileMode) error {
	if f.real != nil {
		return f.real.Chmod(mode)
	}
	return nil
}

// Sync mirrors (*os.File).Sync.
func (f *File) Sync() error {
	if f.real != nil {
		return f.real.Sync()
	}
	W.Event("sync %s", f.name)
	return nil
}

// Name mirrors (*os.File).Name.
func (f *File) Name() string {
	if f.real != nil {
		return f.real.Name()
	}
	return f.name
}

// Stat mirrors (*os.File).Stat.
func (f *File) Stat() (os.FileInfo, error) {
	if f.real != nil {
		return f.real.Stat()
	}
	return fileInfo{name: filepath.Base(f.name), node: f.node}, nil
}

type fileInfo struct {
	name string
	node *Node
}

func (fi fileInfo) Name() string { return fi.name }
func (fi fileInfo) Size() int64 {
	if fi.node.Stream {
		return 0
	}
	return int64(len(fi.node.Data))
}
func (fi fileInfo) Mode() os.FileMode {
	if fi.node.IsDir {
		return os.ModeDir | 0755
	}
	return 0644
}
func (fi fileInfo) ModTime() time.Time { return time.Unix(0, 0) }
func (fi fileInfo) IsDir() bool        { return fi.node.IsDir }
func (fi fileInfo) Sys() interface{}   { return nil }

func pathErr(op, name, errName string) error {
	return &os.PathError{Op: op, Path: name, Err: ErrByName(errName)}
}

// Open replaces os.Open.
func Open(name string) (*File, error) {
	if W == nil {
		f, err := os.Open(name)
		if err != nil {
			return nil, err
		}
		return &File{real: f}, nil
	}
	d := W.Disk
	if e, ok := d.OpenErr[name]; ok && e != "" {
		W.Stat("fault.open." + e)
		W.Event("open %s err=%s", name, e)
		return nil, pathErr("open", name, e)
	}
	node, ok := d.Nodes[name]
	if !ok {
		W.Event("open %s ENOENT", name)
		return nil, pathErr("open", name, "ENOENT")
	}
	W.Event("open %s size=%d", name, len(node.Data))
	data := make([]byte, len(node.Data))
	copy(data, node.Data)
	rd := &Reader{Data: data, Steps: d.ReadPlan[name], Rest: d.ReadRest[name]}
	if f, ok := d.ReadFail[name]; ok {
		fmt.Sscan(f[0], &rd.FailAt)
		rd.FailErr, rd.FailWith = f[1], f[2] == "with"
	}
	return &File{name: name, node: node, rd: rd}, nil
}

// Create replaces os.Create (truncates at once, like the real call).
func Create(name string) (*File, error) {
	if W == nil {
		f, err := os.Create(name)
		if err != nil {
			return nil, err
		}
		return &File{real: f}, nil
	}
	d := W.Disk
	if e, ok := d.OpenErr[name]; ok && e != "" {
		W.Stat("fault.open." + e)
		W.Event("create %s err=%s", name, e)
		return nil, pathErr("open", name, e)
	}
	// a fault on a directory ("dir/") hits every file created below it
	for _, k := range sortedOpenErrDirs(d.OpenErr) {
		if e := d.OpenErr[k]; e != "" && strings.HasPrefix(name, k) {
			W.Stat("fault.open." + e)
			W.Event("create %s err=%s (directory %s)", name, e, k)
			return nil, pathErr("open", name, e)
		}
	}
	node := d.Nodes[name]
	if node == nil {
		node = &Node{}
		d.Nodes[name] = node
	}
	node.Data = node.Data[:0]
	W.Event("create %s", name)
	return &File{name: name, node: node, wr: &Sink{Name: name, Faults: d.WritePlan[name]}}, nil
}

// OpenFile replaces os.OpenFile (subset: read-only, or create/truncate/append
// for writing).
func OpenFile(name string, flag int, perm os.FileMode) (*File, error) {
	if W == nil {
		f, err := os.OpenFile(name, flag, perm)
		if err != nil {
			return nil, err
		}
		return &File{real: f}, nil
	}
	if flag&(os.O_WRONLY|os.O_RDWR) == 0 {
		return Open(name)
	}
	d := W.Disk
	node := d.Nodes[name]
	if node == nil && flag&os.O_CREATE == 0 {
		return nil, pathErr("open", name, "ENOENT")
	}
	if node != nil && flag&os.O_EXCL != 0 && flag&os.O_CREATE != 0 {
		W.Event("openfile %s err=EEXIST", name)
		return nil, pathErr("open", name, "EEXIST")
	}
	if flag&os.O_TRUNC != 0 || node == nil {
		return Create(name)
	}
	W.Event("openfile %s flag=%#x", name, flag)
	return &File{name: name, node: node, wr: &Sink{Name: name, Faults: d.WritePlan[name]}, app: flag&os.O_APPEND != 0}, nil
}

var tempSeq int

func sortedOpenErrDirs(m map[string]string) []string {
	var out []string
	for k := range m {
		if strings.HasSuffix(k, "/") {
			out = append(out, k)
		}
	}
	sort.Strings(out)
	return out
}

// CreateTemp replaces os.CreateTemp / ioutil.TempFile on the simulated disk.
func CreateTemp(dir, pattern string) (*File, error) {
	if W == nil {
		f, err := ioutil.TempFile(dir, pattern)
		if err != nil {
			return nil, err
		}
		return &File{real: f}, nil
	}
	tempSeq++
	name := pattern
	if i := strings.LastIndex(pattern, "*"); i >= 0 {
		name = pattern[:i] + fmt.Sprintf("%06d", tempSeq) + pattern[i+1:]
	} else {
		name = pattern + fmt.Sprintf("%06d", tempSeq)
	}
	if dir != "" {
		name = filepath.Join(dir, name)
	}
	return Create(name)
}

// Chmod, MkdirAll, Mkdir replace their os namesakes (no-ops on the simulated disk).
func Chmod(name string, mode os.FileMode) error {
	if W == nil {
		return os.Chmod(name, mode)
	}
	return nil
}

// MkdirAll is a no-op on the flat simulated disk.
func MkdirAll(path string, perm os.FileMode) error {
	if W == nil {
		return os.MkdirAll(path, perm)
	}
	return nil
}

// Mkdir is a no-op on the flat simulated disk.
func Mkdir(path string, perm os.FileMode) error {
	if W == nil {
		return os.Mkdir(path, perm)
	}
	return nil
}

// TempDir replaces os.TempDir.
func TempDir() string {
	if W == nil {
		return os.TempDir()
	}
	return "/simtmp"
}

// Stat replaces os.Stat / os.Lstat.
func Stat(name string) (os.FileInfo, error) {
	if W == nil {
		return os.Stat(name)
	}
	node, ok := W.Disk.Nodes[name]
	if !ok {
		return nil, pathErr("stat", name, "ENOENT")
	}
	return fileInfo{name: filepath.Base(name), node: node}, nil
}

// Rename replaces os.Rename (atomic on the simulated disk).
func Rename(oldpath, newpath string) error {
	if W == nil {
		return os.Rename(oldpath, newpath)
	}
	node, ok := W.Disk.Nodes[oldpath]
	if !ok {
		return &os.LinkError{Op: "rename", Old: oldpath, New: newpath, Err: syscall.ENOENT}
	}
	delete(W.Disk.Nodes, oldpath)
	W.Disk.Nodes[newpath] = node
	W.Event("rename %s %s", oldpath, newpath)
	return nil
}

// Remove replaces os.Remove.
func Remove(name string) error {
	if W == nil {
		return os.Remove(name)
	}
	if _, ok := W.Disk.Nodes[name]; !ok {
		return pathErr("remove", name, "ENOENT")
	}
	delete(W.Disk.Nodes, name)
	W.Event("remove %s", name)
	return nil
}

// ReadFile replaces os.ReadFile / ioutil.ReadFile.
func ReadFile(name string) ([]byte, error) {
	f, err := Open(name)
	if err != nil {
		return nil, err
	}
	defer f.Close()
	var out []byte
	buf := make([]byte, 4096)
	for {
		Tick()
		n, err := f.Read(buf)
		out = append(out, buf[:n]...)
		if err == io.EOF {
			return out, nil
		}
		if err != nil {
			return out, err
		}
	}
}

// WriteFile replaces os.WriteFile / ioutil.WriteFile.
func WriteFile(name string, data []byte, perm os.FileMode) error {
	f, err := Create(name)
	if err != nil {
		return err
	}
	_, err = f.Write(data)
	if cerr := f.Close(); err == nil {
		err = cerr
	}
	return err
}

// Glob replaces filepath.Glob.
func Glob(pattern string) ([]string, error) {
	if W == nil {
		return filepath.Glob(pattern)
	}
	var out []string
	names := make([]string, 0, len(W.Disk.Nodes))
	for n := range W.Disk.Nodes {
		names = append(names, n)
	}
	sort.Strings(names)
	for _, n := range names {
		ok, err := filepath.Match(pattern, n)
		if err != nil {
			return nil, err
		}
		if ok {
			out = append(out, n)
		}
	}
	W.Event("glob %s -> %d", pattern, len(out))
	return out, nil
}

// ---- environment, exit, args, clock, tty ------------------------------------

// Getenv replaces os.Getenv.
func Getenv(key string) string {
	if W == nil {
		return os.Getenv(key)
	}
	v := W.Env[key]
	W.Event("getenv %s=%q", key, v)
	return v
}

// LookupEnv replaces os.LookupEnv.
func LookupEnv(key string) (string, bool) {
	if W == nil {
		return os.LookupEnv(key)
	}
	v, ok := W.Env[key]
	W.Event("lookupenv %s=%q,%v", key, v, ok)
	return v, ok
}

// Setenv replaces os.Setenv: the library changes the simulated environment.
func Setenv(key, value string) error {
	if W == nil {
		return os.Setenv(key, value)
	}
	if W.Env == nil {
		W.Env = map[string]string{}
	}
	W.Env[key] = value
	W.Stat("setenv-by-library")
	W.Event("setenv %s=%q", key, value)
	return nil
}

// Unsetenv replaces os.Unsetenv.
func Unsetenv(key string) error {
	if W == nil {
		return os.Unsetenv(key)
	}
	delete(W.Env, key)
	W.Stat("unsetenv-by-library")
	W.Event("unsetenv %s", key)
	return nil
}

// Clearenv replaces os.Clearenv.
func Clearenv() {
	if W == nil {
		os.Clearenv()
		return
	}
	for k := range W.Env {
		delete(W.Env, k)
	}
	W.Stat("clearenv-by-library")
	W.Event("clearenv")
}

// Environ replaces os.Environ.
func Environ() []string {
	if W == nil {
		return os.Environ()
	}
	keys := make([]string, 0, len(W.Env))
	for k := range W.Env {
		keys = append(keys, k)
	}
	sort.Strings(keys)
	// the order of the environment block is incidental (the order in which the
	// variables were exported): the schedule decides it, like a map range
	perm := W.Sched.next("os.Environ", len(keys))
	W.orderEvent("os.Environ", len(keys), perm)
	out := make([]string, len(keys))
	for i, p := range perm {
		out[i] = keys[p] + "=" + W.Env[keys[p]]
	}
	return out
}

// ExpandEnv replaces os.ExpandEnv.
func ExpandEnv(s string) string {
	if W == nil {
		return os.ExpandEnv(s)
	}
	return os.Expand(s, func(k string) string { return W.Env[k] })
}

// Exit replaces os.Exit.
func Exit(code int) {
	if W == nil {
		os.Exit(code)
	}
	W.Exited = true
	W.ExitCode = code
	W.Stat("exit")
	W.Event("exit %d", code)
	panic(ExitPanic{Code: code})
}

// Args replaces reads of os.Args.
func Args() []string {
	if W == nil {
		return os.Args
	}
	return W.Args
}

// Now replaces time.Now.
func Now() time.Time {
	if W == nil {
		return time.Now()
	}
	W.Event("now")
	return time.Unix(W.Now, 0).UTC()
}

// Since replaces time.Since.
func Since(t time.Time) time.Duration { return Now().Sub(t) }

// Sleep replaces time.Sleep: simulated time advances, nothing blocks.
func Sleep(d time.Duration) {
	if W == nil {
		time.Sleep(d)
		return
	}
	W.Now += int64(d / time.Second)
	W.Event("sleep %v", d)
}

// IoctlGetWinsize replaces unix.IoctlGetWinsize.
func IoctlGetWinsize(fd int, req uint) (*unix.Winsize, error) {
	if W == nil {
		return unix.IoctlGetWinsize(fd, req)
	}
	W.Event("winsize fd=%d cols=%d", fd, W.Cols)
	if W.Cols < 0 {
		return nil, syscall.ENOTTY
	}
	return &unix.Winsize{Row: 24, Col: uint16(W.Cols)}, nil
}

// Describe is used by traces.
func Describe(b []byte, max int) string {
	s := string(b)
	if len(s) > max {
		s = s[:max] + "…"
	}
	return strings.ToValidUTF8(s, "?")
}
