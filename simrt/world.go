// Package simrt is the simulated operating system that a woven copy of
// go-flags runs against. The weaver (verif/weave) copies this package into the
// scratch copy of the library as github.com/jessevdk/go-flags/simrt and
// redirects every seam (map iteration, environment, fd 1/2, exit, files,
// clock, tty size) to it.
//
// With no world installed (W == nil) every function passes through to the real
// operating system, so the library's own test suite behaves as before.
//
// The package must compile under the library's go.mod language version
// (go 1.15): no generics, no `any`.
package simrt

import (
	"fmt"
	"hash/fnv"
	"sort"
	"sync"
	"time"
)

// World is the whole simulated process environment of one boot.
type World struct {
	Env  map[string]string // present key = set (possibly to "")
	Args []string          // os.Args
	Cols int               // tty columns; <0 = ioctl fails (not a tty)
	Now  int64             // unix seconds of the simulated clock

	Disk *Disk

	Fd1 *Sink
	Fd2 *Sink

	Sched *Schedule

	TickBudget int64
	Ticks      int64
	// WallDeadline (unix nanoseconds, 0 = none) is a backstop for loops whose
	// cost per iteration grows: the step budget stays the deterministic
	// criterion, but an operation that is still stepping after several real
	// seconds is cut off as well.
	WallDeadline int64

	// recorded
	Exited   bool
	ExitCode int
	Trace    []string
	traceN   int
	hash     uint64
	Stats    map[string]int

	ptrReg  map[uintptr]int
	ptrNext int
}

// W is the installed world; nil means pass-through to the real OS.
var W *World

// MaxTrace bounds the number of trace lines kept (the hash covers all).
const MaxTrace = 400

// NewWorld returns a world with empty environment, an empty disk, healthy
// sinks, 80 columns and the identity schedule.
func NewWorld() *World {
	return &World{
		Env:        map[string]string{},
		Args:       []string{"simapp"},
		Cols:       80,
		Now:        1700000000,
		Disk:       NewDisk(),
		Fd1:        &Sink{Name: "fd1"},
		Fd2:        &Sink{Name: "fd2"},
		Sched:      &Schedule{Mode: "id"},
		TickBudget: 1 << 40,
		Stats:      map[string]int{},
		ptrReg:     map[uintptr]int{},
		hash:       14695981039346656037,
	}
}

// Install makes w the current world.
func Install(w *World) {
	W = w
	heldW, heldR = map[interface{}]int{}, map[interface{}]int{}
}

// Uninstall returns to pass-through mode.
func Uninstall() { W = nil }

// Event appends one line to the trace and folds it into the trace hash.
func (w *World) Event(format string, args ...interface{}) {
	s := fmt.Sprintf(format, args...)
	h := fnv.New64a()
	h.Write([]byte(s))
	w.hash = (w.hash ^ h.Sum64()) * 1099511628211
	w.traceN++
	if len(w.Trace) < MaxTrace {
		w.Trace = append(w.Trace, s)
	}
}

// Hash is the running hash over all events so far.
func (w *World) Hash() uint64 { return w.hash }

// EventCount is the number of events so far.
func (w *World) EventCount() int { return w.traceN }

// Stat bumps a named counter.
func (w *World) Stat(name string) {
	w.Stats[name]++
}

// SortedStats returns the counters as "name=n" in name order.
func (w *World) SortedStats() []string {
	keys := make([]string, 0, len(w.Stats))
	for k := range w.Stats {
		keys = append(keys, k)
	}
	sort.Strings(keys)
	out := make([]string, len(keys))
	for i, k := range keys {
		out[i] = fmt.Sprintf("%s=%d", k, w.Stats[k])
	}
	return out
}

// ---- panics the executor recovers ---------------------------------------

// ExitPanic unwinds the simulated process after os.Exit.
type ExitPanic struct{ Code int }

// BudgetPanic unwinds an operation that exceeded its loop-step budget.
type BudgetPanic struct {
	Ticks int64
	Wall  bool // cut off by the wall-clock backstop, not by the step budget
}

// CrashPanic unwinds the simulated process killed by the simulator
// (crash point inside a file write).
type CrashPanic struct{ Where string }

// Tick counts one loop iteration / function entry of woven code.
func Tick() {
	if W == nil {
		return
	}
	W.Ticks++
	if W.Ticks&4095 == 0 && W.WallDeadline != 0 && time.Now().UnixNano() > W.WallDeadline {
		t := W.Ticks
		W.Ticks = 0
		W.WallDeadline = 0
		W.TickBudget = 1 << 40
		W.Event("wall-clock backstop")
		panic(BudgetPanic{Ticks: t, Wall: true})
	}
	if W.Ticks > W.TickBudget {
		t := W.Ticks
		W.Ticks = 0 // let deferred code run without re-triggering at once
		W.TickBudget = 1 << 40
		W.Event("budget-exceeded")
		panic(BudgetPanic{Ticks: t})
	}
}

// ---- locks ---------------------------------------------------------------
// The library has no lock today. Should one appear, the weaver routes
// Lock/Unlock on sync.Mutex / sync.RWMutex here: the simulated process has one
// thread, so acquiring a lock that is already held can never succeed — it is
// reported as a hang instead of blocking the harness forever.

// HangPanic unwinds an operation that would block forever.
type HangPanic struct{ Why string }

var heldW = map[interface{}]int{}
var heldR = map[interface{}]int{}

// MuLock replaces m.Lock().
func MuLock(m interface{}) {
	if W != nil && (heldW[m] > 0 || heldR[m] > 0) {
		W.Stat("lock.self-deadlock")
		W.Event("self-deadlock on %T", m)
		panic(HangPanic{Why: "Lock on a mutex this (single) thread already holds"})
	}
	switch x := m.(type) {
	case *sync.Mutex:
		x.Lock()
	case *sync.RWMutex:
		x.Lock()
	}
	heldW[m]++
}

// MuUnlock replaces m.Unlock().
func MuUnlock(m interface{}) {
	if heldW[m] > 0 {
		heldW[m]--
	}
	switch x := m.(type) {
	case *sync.Mutex:
		x.Unlock()
	case *sync.RWMutex:
		x.Unlock()
	}
}

// MuRLock replaces m.RLock().
func MuRLock(m interface{}) {
	if W != nil && heldW[m] > 0 {
		W.Stat("lock.self-deadlock")
		W.Event("self-deadlock (RLock under Lock) on %T", m)
		panic(HangPanic{Why: "RLock on a mutex this (single) thread holds for writing"})
	}
	if x, ok := m.(*sync.RWMutex); ok {
		x.RLock()
	}
	heldR[m]++
}

// MuRUnlock replaces m.RUnlock().
func MuRUnlock(m interface{}) {
	if heldR[m] > 0 {
		heldR[m]--
	}
	if x, ok := m.(*sync.RWMutex); ok {
		x.RUnlock()
	}
}

// ---- pools ------------------------------------------------------------------
// sync.Pool drops its contents whenever the garbage collector runs; under the
// simulator a pool is a plain LIFO free list, so what a pool hands out is a
// function of the history alone.

var pools = map[*sync.Pool][]interface{}{}

// PoolGet replaces p.Get().
func PoolGet(p *sync.Pool) interface{} {
	if W == nil {
		return p.Get()
	}
	if l := pools[p]; len(l) > 0 {
		v := l[len(l)-1]
		pools[p] = l[:len(l)-1]
		return v
	}
	if p.New != nil {
		return p.New()
	}
	return nil
}

// PoolPut replaces p.Put(v).
func PoolPut(p *sync.Pool, v interface{}) {
	if W == nil {
		p.Put(v)
		return
	}
	pools[p] = append(pools[p], v)
}
