package main

import (
	"strings"
)

// A Plan is a command line known to be valid for a declaration, with the role
// of every token recorded, so that faults can be injected at chosen places and
// the cause of the resulting rejection is known to the oracle.

type PTok struct {
	Text  string `json:"t"`
	Role  string `json:"r"` // cmd | flag | optval (name and value in one token) | optname | val | cluster | pos | rest | ddash | raw
	Opt   string `json:"o,omitempty"`
	Kind  string `json:"k,omitempty"`
	Level int    `json:"l,omitempty"`
	Name  string `json:"n,omitempty"` // optval tokens: the name part incl. dashes and separator
	Val   string `json:"v,omitempty"` // optval / val tokens: the value part
}

type Plan struct {
	Toks     []PTok   `json:"toks"`
	Chain    []string `json:"chain,omitempty"` // canonical command names selected
	Rest     []string `json:"rest,omitempty"`  // expected remaining arguments
	ExecPath string   `json:"exec_path,omitempty"`
	IsExec   bool     `json:"is_exec,omitempty"`  // the innermost selected command has Execute
	Required []string `json:"required,omitempty"` // paths of required options in the active chain
	NeedCmd  bool     `json:"need_cmd,omitempty"` // the parent of the last command word requires a command
}

func (p *Plan) argv() []string {
	out := make([]string, len(p.Toks))
	for i, t := range p.Toks {
		out[i] = t.Text
	}
	return out
}

func findCmd(cs []*CmdSpec, name string) *CmdSpec {
	for _, c := range cs {
		if c.Name == name {
			return c
		}
	}
	return nil
}

func isSignedNumeric(kind string) bool {
	if isMapKind(kind) || isFuncKind(kind) {
		return false
	}
	b := baseKind(kind)
	return strings.HasPrefix(b, "int") || strings.HasPrefix(b, "float")
}

// optTokens renders one occurrence of an option.
func optTokens(r *Rng, oi optInfo, level int) []PTok {
	o := oi.O
	mk := func(text, role string) PTok {
		return PTok{Text: text, Role: role, Opt: oi.Path, Kind: o.Kind, Level: level}
	}
	mkv := func(name, val string) PTok {
		return PTok{Text: name + val, Role: "optval", Opt: oi.Path, Kind: o.Kind, Level: level, Name: name, Val: val}
	}
	mkval := func(val string) PTok {
		return PTok{Text: val, Role: "val", Opt: oi.Path, Kind: o.Kind, Level: level, Val: val}
	}
	useLong := oi.LongFull != "" && (o.Short == "" || r.Bool())
	name := "-" + o.Short
	if useLong {
		name = "--" + oi.LongFull
	}
	if isBoolFlag(o.Kind) {
		return []PTok{mk(name, "flag")}
	}
	val := iniValText(r, o)
	if isFuncKind(o.Kind) && val == "" {
		val = "x"
	}
	asciiShort := len(o.Short) == 1
	if o.Optional {
		switch {
		case r.Chance(1, 3):
			return []PTok{mk(name, "flag")}
		case useLong:
			return []PTok{mkv(name+"=", val)}
		case asciiShort && r.Bool():
			return []PTok{mkv(name+"=", val)}
		default:
			return []PTok{mkv(name, val)}
		}
	}
	separateOK := !strings.HasPrefix(val, "-") || (isSignedNumeric(o.Kind) && len(val) > 1 && val[1] >= '0' && val[1] <= '9')
	if val == "" {
		separateOK = true
	}
	if useLong {
		if separateOK && r.Bool() {
			return []PTok{mk(name, "optname"), mkval(val)}
		}
		return []PTok{mkv(name+"=", val)}
	}
	switch x := r.Intn(3); {
	case x == 0 && separateOK:
		return []PTok{mk(name, "optname"), mkval(val)}
	case x == 1 && asciiShort:
		return []PTok{mkv(name+"=", val)}
	case val != "" && !strings.HasPrefix(val, "="):
		return []PTok{mkv(name, val)}
	case asciiShort:
		return []PTok{mkv(name+"=", val)}
	}
	return []PTok{mk(name, "optname"), mkval(val)}
}

// genPlan builds a valid command line for d.
// restBounds: how many words a rest-positional with this required tag takes.
func restBounds(req string) (lo, hi int) {
	switch req {
	case "1":
		return 1, 1 << 20
	case "1-2":
		return 1, 2
	case "2":
		return 2, 1 << 20
	case "2-3":
		return 2, 3
	}
	return 0, 1 << 20
}

func hasDDash(p *Plan) bool {
	for _, t := range p.Toks {
		if t.Role == "ddash" {
			return true
		}
	}
	return false
}

func genPlan(r *Rng, d *DeclSpec) *Plan {
	p := &Plan{}
	ois := optInfos(d)
	// 1. command chain
	level := d.Commands
	subOptional := d.SubOptional
	var chainCmds []*CmdSpec
	var chainWords []string
	for len(level) > 0 {
		if subOptional && r.Chance(1, 3) {
			break
		}
		c := level[r.Intn(len(level))]
		word := c.Name
		if len(c.Aliases) > 0 && r.Chance(1, 3) {
			word = c.Aliases[r.Intn(len(c.Aliases))]
		}
		p.NeedCmd = !subOptional
		chainCmds = append(chainCmds, c)
		chainWords = append(chainWords, word)
		p.Chain = append(p.Chain, c.Name)
		level = c.Commands
		subOptional = c.SubOptional
	}
	if len(chainCmds) > 0 {
		last := chainCmds[len(chainCmds)-1]
		p.ExecPath = strings.Join(p.Chain, ".")
		p.IsExec = last.Exec
	}
	// 2. option occurrences per level
	levelOf := func(oi optInfo) int {
		if len(oi.CmdPath) > len(p.Chain) {
			return -1
		}
		for i := range oi.CmdPath {
			if oi.CmdPath[i] != p.Chain[i] {
				return -1
			}
		}
		return len(oi.CmdPath)
	}
	segs := make([][][]PTok, len(p.Chain)+1) // segment i: occurrences placed after command word i
	var flagsForCluster []optInfo
	for _, oi := range ois {
		l := levelOf(oi)
		if l < 0 {
			continue
		}
		if oi.O.Required {
			p.Required = append(p.Required, oi.Path)
		}
		if !oi.O.Required && !r.Chance(1, 3) {
			continue
		}
		n := 1
		if isSliceKind(oi.O.Kind) || isMapKind(oi.O.Kind) {
			n = r.Range(1, 3)
		} else if r.Chance(1, 5) {
			n = 2
		}
		if isBoolFlag(oi.O.Kind) && len(oi.O.Short) == 1 && n == 1 && !isFuncKind(oi.O.Kind) && r.Chance(1, 2) && !oi.O.Required {
			flagsForCluster = append(flagsForCluster, oi)
			continue
		}
		for i := 0; i < n; i++ {
			seg := r.Range(l, len(p.Chain))
			segs[seg] = append(segs[seg], optTokens(r, oi, l))
		}
	}
	if len(flagsForCluster) >= 2 {
		// a cluster of short flags: placed at the deepest level among its members
		text := "-"
		maxl := 0
		for _, oi := range flagsForCluster {
			text += oi.O.Short
			if l := levelOf(oi); l > maxl {
				maxl = l
			}
		}
		seg := r.Range(maxl, len(p.Chain))
		segs[seg] = append(segs[seg], []PTok{{Text: text, Role: "cluster", Level: maxl}})
	} else {
		for _, oi := range flagsForCluster {
			l := levelOf(oi)
			seg := r.Range(l, len(p.Chain))
			segs[seg] = append(segs[seg], optTokens(r, oi, l))
		}
	}
	// 3. positionals and rest words of the innermost level
	var pos []*ArgSpec
	if len(chainCmds) > 0 {
		if own := chainCmds[len(chainCmds)-1].Own; own != nil {
			pos = own.Pos
		}
	} else if d.Root != nil {
		pos = d.Root.Pos
	}
	// a plain word may happen to be the name of a command that exists elsewhere
	// in the tree (a sibling of an ancestor, a command further up or down): where
	// it is not a subcommand of the innermost command it is an ordinary word
	here := map[string]bool{}
	for _, c := range level {
		here[c.Name] = true
		for _, a := range c.Aliases {
			here[a] = true
		}
	}
	var foreign []string
	for _, c := range d.allCmds() {
		for _, w := range append([]string{c.C.Name}, c.C.Aliases...) {
			if !here[w] && !strings.HasPrefix(w, "-") && w != "" {
				foreign = append(foreign, w)
			}
		}
	}
	word := func() string {
		if len(foreign) > 0 && r.Chance(1, 6) {
			return foreign[r.Intn(len(foreign))]
		}
		return r.Pick(plainWords)
	}
	var words []PTok
	hasRestArg := false
	for _, a := range pos {
		if a.Kind == "[]string" {
			hasRestArg = true
			lo, hi := restBounds(a.Required)
			if hi > lo+2 {
				hi = lo + 2
			}
			for i := r.Range(lo, hi); i > 0; i-- {
				words = append(words, PTok{Text: word(), Role: "pos"})
			}
			continue
		}
		w := word()
		if a.Kind == "int" {
			w = genPlainText(r, "uint")
		}
		words = append(words, PTok{Text: w, Role: "pos", Kind: a.Kind})
	}
	if !hasRestArg {
		for i := r.Range(0, 2); i > 0 && r.Bool(); i-- {
			w := word()
			words = append(words, PTok{Text: w, Role: "rest"})
			p.Rest = append(p.Rest, w)
		}
	}
	// 4. assemble
	passAfter := d.Options&optPassAfterNonOption != 0
	for i := 0; i <= len(p.Chain); i++ {
		if i > 0 {
			p.Toks = append(p.Toks, PTok{Text: chainWords[i-1], Role: "cmd", Level: i})
		}
		occ := segs[i]
		perm := r.Perm(len(occ))
		if i < len(p.Chain) {
			for _, j := range perm {
				p.Toks = append(p.Toks, occ[j]...)
			}
			continue
		}
		// last segment: options interleaved with the words (unless POSIX mode)
		if d.Options&optPassDoubleDash != 0 && len(words) > 0 && r.Chance(1, 6) {
			// the words follow a double dash: they still fill the positional fields
			for _, j := range perm {
				p.Toks = append(p.Toks, occ[j]...)
			}
			p.Toks = append(p.Toks, PTok{Text: "--", Role: "ddash"})
			p.Toks = append(p.Toks, words...)
		} else if passAfter && len(words) > 0 {
			for _, j := range perm {
				p.Toks = append(p.Toks, occ[j]...)
			}
			p.Toks = append(p.Toks, words...)
		} else {
			wi := 0
			for _, j := range perm {
				for wi < len(words) && r.Chance(1, 3) {
					p.Toks = append(p.Toks, words[wi])
					wi++
				}
				p.Toks = append(p.Toks, occ[j]...)
			}
			p.Toks = append(p.Toks, words[wi:]...)
		}
	}
	// 5. after a double dash everything is passed through
	if d.Options&optPassDoubleDash != 0 && !hasRestArg && len(pos) == 0 && r.Chance(1, 5) && !hasDDash(p) {
		p.Toks = append(p.Toks, PTok{Text: "--", Role: "ddash"})
		for i := r.Range(0, 2); i > 0; i-- {
			w := r.Pick([]string{"--not-an-option", "-x", "plain", "--", "-h", "--help"})
			p.Toks = append(p.Toks, PTok{Text: w, Role: "raw"})
			p.Rest = append(p.Rest, w)
		}
	}
	return p
}

// planConsistent re-checks a plan against the declaration as it is now (a
// minimised scenario may have lost what the generator relied on): every word of
// the line must still mean what it was generated to mean. Errs towards "no".
func planConsistent(d *DeclSpec, p *Plan) bool {
	// the command chain exists, its words appear in order, and it ends where a
	// command may be left out
	cs, subOpt := d.Commands, d.SubOptional
	var last *CmdSpec
	var cmdWords []string
	for _, t := range p.Toks {
		if t.Role == "cmd" {
			cmdWords = append(cmdWords, t.Text)
		}
	}
	if len(cmdWords) != len(p.Chain) {
		return false
	}
	for i, name := range p.Chain {
		c := findCmd(cs, name)
		if c == nil {
			return false
		}
		okWord := cmdWords[i] == c.Name
		for _, a := range c.Aliases {
			okWord = okWord || a == cmdWords[i]
		}
		if !okWord {
			return false
		}
		last, cs, subOpt = c, c.Commands, c.SubOptional
	}
	if len(cs) > 0 && !subOpt {
		return false
	}
	ois := map[string]optInfo{}
	byShort := map[string]optInfo{}
	onChain := func(oi optInfo) bool {
		if len(oi.CmdPath) > len(p.Chain) {
			return false
		}
		for i := range oi.CmdPath {
			if oi.CmdPath[i] != p.Chain[i] {
				return false
			}
		}
		return true
	}
	for _, oi := range optInfos(d) {
		ois[oi.Path] = oi
		if oi.O.Short != "" && onChain(oi) {
			byShort[oi.O.Short] = oi
		}
	}
	given := map[string]bool{}
	nPos, sawDDash := 0, false
	for i, t := range p.Toks {
		switch t.Role {
		case "flag", "optname", "optval":
			oi, ok := ois[t.Opt]
			if !ok || !onChain(oi) || oi.O.Kind != t.Kind {
				return false
			}
			given[t.Opt] = true
			name := t.Text
			if t.Role == "optval" {
				name = t.Name
			}
			long := "--" + oi.LongFull
			short := "-" + oi.O.Short
			switch {
			case oi.LongFull != "" && (name == long || name == long+"="):
			case oi.O.Short != "" && (name == short || name == short+"="):
			default:
				return false
			}
			if t.Role == "flag" && !isBoolFlag(oi.O.Kind) && !oi.O.Optional {
				return false
			}
			if t.Role == "optname" && (i+1 >= len(p.Toks) || p.Toks[i+1].Role != "val") {
				return false
			}
			if len(oi.O.Choices) > 0 && t.Role == "optval" {
				ok := false
				for _, c := range oi.O.Choices {
					ok = ok || c == t.Val
				}
				if !ok {
					return false
				}
			}
		case "val":
			if i == 0 || p.Toks[i-1].Role != "optname" {
				return false
			}
			if oi, ok := ois[t.Opt]; ok && len(oi.O.Choices) > 0 {
				found := false
				for _, c := range oi.O.Choices {
					found = found || c == t.Val
				}
				if !found {
					return false
				}
			}
		case "cluster":
			for _, r := range t.Text[1:] {
				oi, ok := byShort[string(r)]
				if !ok || !isBoolFlag(oi.O.Kind) {
					return false
				}
				given[oi.Path] = true
			}
		case "pos":
			nPos++
		case "ddash":
			sawDDash = true
		}
	}
	if sawDDash && d.Options&optPassDoubleDash == 0 {
		return false
	}
	for _, oi := range ois {
		if oi.O.Required && onChain(oi) && !given[oi.Path] {
			return false
		}
	}
	// positional fields: enough words for the required ones, integer fields get integers
	own := d.Root
	if last != nil {
		own = last.Own
	}
	if own != nil {
		need, n := 0, 0
		for _, a := range own.Pos {
			if a.Kind == "[]string" {
				if lo, _ := restBounds(a.Required); lo > 0 {
					need = n + lo
				}
				continue
			}
			n++
			if own.PosRequired || a.Required != "" {
				need = n
			}
		}
		words := nPos
		if words < need {
			return false
		}
		k := 0
		for _, t := range p.Toks {
			if t.Role != "pos" {
				continue
			}
			if k < len(own.Pos) && own.Pos[k].Kind == "int" && t.Kind != "int" {
				return false
			}
			if k < len(own.Pos) && own.Pos[k].Kind != "[]string" {
				k++
			}
		}
	} else if nPos > 0 {
		return false
	}
	return true
}
