package main

import (
	"fmt"
	"sort"
	"strconv"
	"strings"

	"github.com/jessevdk/go-flags/simrt"
)

// C14 — INI reading is robust and pinpoints errors.

type C14Entry struct {
	Opt     string   `json:"opt"`
	Kind    string   `json:"kind"`
	Section string   `json:"section"`
	Key     string   `json:"key"`
	Val     BStr     `json:"val"`
	Quoted  bool     `json:"quoted,omitempty"`
	Pre     string   `json:"pre,omitempty"`
	Eq1     string   `json:"eq1,omitempty"`
	Eq2     string   `json:"eq2,omitempty"`
	Post    string   `json:"post,omitempty"`
	CRLF    bool     `json:"crlf,omitempty"`
	Noise   []string `json:"noise,omitempty"` // raw lines emitted before this entry
	HdrDeco string   `json:"hdr_deco,omitempty"`
}

type C14Fault struct {
	Kind string `json:"kind"`
	At   int    `json:"at"` // inserted before the At-th entry of the noisy order (len = at the end)
	Text string `json:"text"`
	More string `json:"more,omitempty"` // an extra line after the fault line
}

type C14Payload struct {
	Source     string           `json:"source"` // structured | torn | arbitrary
	Entries    []C14Entry       `json:"entries,omitempty"`
	NoisyOrder []int            `json:"noisy_order,omitempty"`
	Fault      *C14Fault        `json:"fault,omitempty"`
	TailNoise  []string         `json:"tail_noise,omitempty"`
	NoFinalEOL bool             `json:"no_final_eol,omitempty"`
	ChunksB    []simrt.ReadStep `json:"chunks_b,omitempty"`
	RestB      int              `json:"rest_b,omitempty"`
	ViaFile    bool             `json:"via_file,omitempty"`
	ErrAt      int              `json:"err_at,omitempty"` // inject a read error after this many bytes (0 = no such run)
	ErrKind    string           `json:"err_kind,omitempty"`
	ErrWith    bool             `json:"err_with_data,omitempty"`
	Stall      int              `json:"stall,omitempty"`    // consecutive zero-byte reads at the start of a run (0 = none)
	OpenErr    string           `json:"open_err,omitempty"` // ParseFile: the open fails with this error ("" = no such run)
	FlipAt     int              `json:"flip_at,omitempty"`  // torn family: instead of a crash, one stored byte is changed (position+1; 0 = none)
	FlipTo     int              `json:"flip_to,omitempty"`
	Arbitrary  BStr             `json:"arbitrary,omitempty"`
	// LateIgnore: the IniParser is constructed while the parser's IgnoreUnknown
	// bit has the opposite value; the bit is flipped to its declared value before
	// the read (what counts is the configuration when the file is read).
	LateIgnore bool `json:"late_ignore,omitempty"`
	// AsDefaults: the file is read with IniParser.ParseAsDefaults set (same
	// oracles: on a fresh parser every entry is applied either way).
	AsDefaults bool `json:"as_defaults,omitempty"`
	// PriorLines > 0: the same IniParser has read another document (that many
	// comment lines, nothing else) before; line numbers start afresh with every document.
	PriorLines int `json:"prior_lines,omitempty"`
	// LateGroup: this top-level group is added (AddGroup) only after the same
	// IniParser has read a first document that names its section; the judged read
	// comes after that and sees the complete declaration.
	LateGroup string `json:"late_group,omitempty"`
	// PriorFail (ParseFile only): the same IniParser has been asked before to read
	// the same path, which then held a document that is rejected while it is applied
	// (an unknown section); the file has been corrected since.
	PriorFail bool `json:"prior_fail,omitempty"`
	// PriorBad: the same IniParser has read before, as defaults, a document whose
	// only entry gives an unconvertible value to an option that the judged
	// document sets properly (the rejected entry must leave nothing behind).
	PriorBad BStr `json:"prior_bad,omitempty"`
	// PriorArgv: before the read, the same parser has parsed this command line,
	// which selects a command (the usual order: arguments first, for --config,
	// then the file).
	PriorArgv []BStr `json:"prior_argv,omitempty"`
	// Stream (ParseFile only): the path is a pipe or device, whose size is not known beforehand
	Stream     bool `json:"stream,omitempty"`
	Stores     []Op `json:"stores,omitempty"`
	IniOpts    uint `json:"ini_opts,omitempty"`
	CrashAfter int  `json:"crash_after,omitempty"`
}

type propC14 struct{}

func (propC14) ID() string { return "C14" }

func c14Cfg() *DeclCfg {
	return &DeclCfg{
		Kinds: []string{"bool", "int", "int16", "uint", "uint8", "float64", "string", "string", "duration", "[]int", "[]string", "map[string]int", "map[string]string",
			"map[int]string", "*int", "*string", "um", "func(string)", "func()", "[]bool", "vv", "level", "ulist"},
		MinOpts: 1, MaxOpts: 4, MaxGroups: 2, MaxSub: 1, MaxCmds: 2, MaxDepth: 2, Exec: true,
		Hidden: true, NoIni: true, IniName: true, Namespaces: true, Choices: true, Base: false, CapCmds: true, DupFields: true, MultiByte: true, DottedCmds: true,
		ParserOpts: []uint{0, optHelpFlag, optIgnoreUnknown, optIgnoreUnknown | optHelpFlag, optHelpFlag | optPassDoubleDash | optPrintErrors},
	}
}

func quoteIni(kind string, val string) string {
	if isMapKind(kind) {
		parts := strings.SplitN(val, ":", 2)
		if len(parts) == 2 {
			return parts[0] + ":" + strconv.Quote(parts[1])
		}
		return val
	}
	return strconv.Quote(val)
}

func (e *C14Entry) valueText() string {
	if e.Quoted {
		return quoteIni(e.Kind, string(e.Val))
	}
	return string(e.Val)
}

// renderCanonical: entries grouped as generated, plain formatting.
func (p *C14Payload) renderCanonical() string {
	var b strings.Builder
	cur := ""
	for _, e := range p.Entries {
		if e.Section != cur {
			b.WriteString("[" + e.Section + "]\n")
			cur = e.Section
		}
		b.WriteString(e.Key + " = " + e.valueText() + "\n")
	}
	return b.String()
}

// renderNoisy returns the noisy text, optionally with the fault, and the
// 1-based physical line of the fault line (0 = no fault rendered).
func (p *C14Payload) renderNoisy(withFault bool) (string, int) {
	var b strings.Builder
	line := 0
	faultLine := 0
	cur := ""
	emit := func(s string, crlf bool) {
		b.WriteString(s)
		if crlf {
			b.WriteString("\r\n")
		} else {
			b.WriteString("\n")
		}
		line++
	}
	emitFault := func() {
		f := p.Fault
		emit(f.Text, false)
		faultLine = line
		if f.More != "" {
			emit(f.More, false)
		}
		if f.Kind == "unknown-section" || f.Kind == "unknown-section-empty" {
			cur = "\x00"
		}
	}
	order := p.NoisyOrder
	if len(order) != len(p.Entries) {
		order = make([]int, len(p.Entries))
		for i := range order {
			order[i] = i
		}
	}
	faultAt := -1
	if withFault && p.Fault != nil {
		faultAt = p.Fault.At
		if faultAt > len(order) {
			faultAt = len(order)
		}
		if strings.HasPrefix(p.Fault.Kind, "unknown-section") {
			// a header cannot be followed by entries of the global section
			for faultAt < len(order) && p.Entries[order[faultAt]].Section == "" {
				faultAt++
			}
		}
	}
	for pos, idx := range order {
		e := p.Entries[idx]
		if faultAt == pos {
			emitFault()
		}
		if e.Section != cur && e.Section != "" {
			// (blanks in front of and behind a header line, as around any other line)
			emit(e.Pre+"["+e.HdrDeco+e.Section+e.HdrDeco+"]"+e.Post, e.CRLF)
			cur = e.Section
		}
		for _, n := range e.Noise {
			emit(n, false)
		}
		emit(e.Pre+e.Key+e.Eq1+"="+e.Eq2+e.valueText()+e.Post, e.CRLF)
	}
	if faultAt >= len(order) {
		emitFault()
	}
	for _, n := range p.TailNoise {
		emit(n, false)
	}
	s := b.String()
	if p.NoFinalEOL && strings.HasSuffix(s, "\n") && !strings.HasSuffix(s, "\r\n") {
		s = s[:len(s)-1]
	}
	return s, faultLine
}

var noiseLines = []string{"", "", "   ", "\t", "; a comment", "# another comment", ";", "#", "  ; indented comment", "\t# tabbed = comment", "; key = value in a comment", "# [Section] in a comment", ";\"unbalanced"}

func genNoiseLine(r *Rng) string {
	switch r.Intn(12) {
	case 0:
		n := []int{4090, 4095, 4096, 4097, 5000, 8192, 8193, 12288, 65535, 65536, 65537, 70000}[r.Intn(12)]
		return "; " + strings.Repeat("c", n-2)
	case 1:
		n := []int{4096, 8192, 4097}[r.Intn(3)]
		return strings.Repeat(" ", n)
	default:
		return r.Pick(noiseLines)
	}
}

func genC14Structured(r *Rng, sc *Scenario) {
	p := sc.C14
	ois := optInfos(sc.Decl)
	// choose options, each addressed from ONE section spelling only
	n := r.Range(1, 6)
	perm := r.Perm(len(ois))
	var chosen []optInfo
	for _, i := range perm {
		if len(chosen) >= n {
			break
		}
		oi := ois[i]
		if oi.O.NoIni {
			continue
		}
		chosen = append(chosen, oi)
	}
	// global-section entries first (top-level groups only)
	sort.SliceStable(chosen, func(i, j int) bool { return false })
	var globals, others []C14Entry
	for _, oi := range chosen {
		k := oi.O.Kind
		reps := 1
		if isSliceKind(k) || isMapKind(k) {
			reps = r.Range(1, 3)
		}
		// (a scalar key is given once: what a repeated scalar key means is not fixed
		// by the statement)
		sect := oi.Section
		global := len(oi.CmdPath) == 0 && r.Chance(1, 5)
		if global {
			sect = ""
		} else if r.Chance(1, 4) {
			if up := strings.ToUpper(sect); r.Bool() {
				sect = up
			} else {
				sect = strings.ToLower(sect)
			}
			// command names are matched case-sensitively: only vary the group part
			if len(oi.CmdPath) > 0 {
				sect = oi.Section
			}
		}
		key := r.Pick(iniKeySpellings(oi))
		if key == oi.O.Field {
			// a Go field name shared with another option only names this one
			// unambiguously inside its own group's section
			shared := 0
			for _, x := range ois {
				if x.O.Field == key {
					shared++
				}
			}
			if shared > 1 {
				sect = oi.Section
				global = false
			}
		}
		if oi.O.IniName != "" && key == oi.O.IniName && r.Bool() {
			key = strings.ToUpper(key) // ini-name is matched case-insensitively
		}
		for j := 0; j < reps; j++ {
			e := C14Entry{Opt: oi.Path, Kind: k, Section: sect, Key: key}
			val := iniValText(r, oi.O)
			if baseKind(k) == "string" || k == "um" || k == "vv" {
				switch r.Intn(8) {
				case 0:
					val2 := r.Pick([]string{"two words", " lead", "trail ", "tab\tinside", "semi;colon", "hash#mark", "eq=sign", "quote\"inside", "back\\slash", "ünï✓", "a\nb"})
					if isMapKind(k) {
						val = strings.SplitN(val, ":", 2)[0] + ":" + val2
					} else if k != "um" || !strings.HasPrefix(val2, "bad") {
						val = val2
					}
					e.Quoted = true
				case 1:
					nn := []int{4000, 4090, 4096, 5000, 9000, 66000}[r.Intn(6)]
					long := strings.Repeat("v", nn)
					if isMapKind(k) {
						val = strings.SplitN(val, ":", 2)[0] + ":" + long
					} else {
						val = long
					}
				case 2:
					e.Quoted = true
				case 3:
					// characters that look like syntax but are plain data inside a value
					val2 := r.Pick([]string{"eq=sign", "semi;colon", "hash#mark", "a=b=c", "x [y]", "back\\slash", "two  blanks", "a;b#c=d", "col:on"})
					if isMapKind(k) {
						val = strings.SplitN(val, ":", 2)[0] + ":" + val2
					} else if k != "um" {
						val = val2
					}
				}
				if len(oi.O.Choices) > 0 {
					val = r.Pick(oi.O.Choices)
					e.Quoted = r.Chance(1, 4)
				}
			} else if r.Chance(1, 10) && !isFuncKind(k) && val != "" {
				e.Quoted = true
			}
			if strings.ContainsAny(val, "\n\r") || val != strings.TrimSpace(val) || strings.HasPrefix(val, "\"") {
				e.Quoted = true
			}
			if isMapKind(k) && e.Quoted {
				parts := strings.SplitN(val, ":", 2)
				if len(parts) < 2 || parts[1] == "" {
					e.Quoted = false
				}
			}
			e.Val = BStr(val)
			// decoration
			if r.Chance(1, 2) {
				e.Pre = r.Pick([]string{"", " ", "\t", "   "})
				e.Eq1 = r.Pick([]string{"", " ", "  ", "\t"})
				e.Eq2 = r.Pick([]string{"", " ", "\t ", "   "})
				e.Post = r.Pick([]string{"", " ", "\t", "  \t"})
				if r.Chance(1, 10) {
					e.Post = strings.Repeat(" ", []int{4096, 5000, 100}[r.Intn(3)])
				}
			} else {
				e.Eq1, e.Eq2 = " ", " "
			}
			e.CRLF = r.Chance(1, 4)
			if r.Chance(1, 6) {
				e.HdrDeco = r.Pick([]string{" ", "\t", "  "})
			}
			for x := r.Intn(3); x > 0 && r.Chance(1, 2); x-- {
				e.Noise = append(e.Noise, genNoiseLine(r))
			}
			if global {
				globals = append(globals, e)
			} else {
				others = append(others, e)
			}
		}
	}
	// canonical: globals, then others grouped by section (stable)
	sort.SliceStable(others, func(i, j int) bool { return others[i].Section < others[j].Section })
	p.Entries = append(globals, others...)
	// noisy order: globals stay first; the rest is shuffled, keeping the
	// relative order of entries addressing the same option
	ng := len(globals)
	idx := r.Perm(len(others))
	byOpt := map[string][]int{}
	for _, i := range idx {
		byOpt[others[i].Opt] = append(byOpt[others[i].Opt], i)
	}
	for _, k := range sortedKeys(byOpt) {
		sort.Ints(byOpt[k])
	}
	used := map[string]int{}
	p.NoisyOrder = nil
	for i := 0; i < ng; i++ {
		p.NoisyOrder = append(p.NoisyOrder, i)
	}
	if r.Chance(1, 2) {
		for _, i := range idx {
			o := others[i].Opt
			p.NoisyOrder = append(p.NoisyOrder, ng+byOpt[o][used[o]])
			used[o]++
		}
	} else {
		for i := range others {
			p.NoisyOrder = append(p.NoisyOrder, ng+i)
		}
	}
	for x := r.Intn(3); x > 0; x-- {
		p.TailNoise = append(p.TailNoise, genNoiseLine(r))
	}
	p.NoFinalEOL = r.Chance(1, 4)
	if r.Chance(1, 10) && len(p.Entries) > 0 {
		// the last physical line is an exact multiple of bufio's buffer size
		p.NoFinalEOL = true
		p.TailNoise = nil
		last := &p.Entries[len(p.Entries)-1]
		if len(p.NoisyOrder) == len(p.Entries) {
			last = &p.Entries[p.NoisyOrder[len(p.NoisyOrder)-1]]
		}
		last.CRLF = false
		last.Post = ""
		cur := len(last.Pre + last.Key + last.Eq1 + "=" + last.Eq2 + last.valueText())
		target := []int{4096, 8192, 12288}[r.Intn(3)]
		for target < cur {
			target += 4096
		}
		last.Post = strings.Repeat(" ", target-cur)
	}
	// one faulty line in two thirds of the scenarios
	if r.Chance(2, 3) {
		p.Fault = genC14Fault(r, sc.Decl, p)
	}
}

func genC14Fault(r *Rng, d *DeclSpec, p *C14Payload) *C14Fault {
	f := &C14Fault{At: r.Range(0, len(p.Entries))}
	kinds := []string{"malformed-header", "empty-section", "no-equals", "bad-quote", "unknown-option", "bad-value", "unknown-section", "unknown-section-empty", "bad-map-quote", "empty-key", "bad-choice", "func-with-arg", "unmarshal-fails", "foreign-key"}
	f.Kind = r.Pick(kinds)
	prev := func() *C14Entry {
		if f.At == 0 || len(p.NoisyOrder) == 0 {
			return nil
		}
		return &p.Entries[p.NoisyOrder[f.At-1]]
	}
	switch f.Kind {
	case "malformed-header":
		f.Text = r.Pick([]string{"[Application Options", "[", "[ Net", "[Application Options"}) // (an unclosed bracket only: what may follow a closing bracket is for the library to decide)
	case "empty-section":
		f.Text = r.Pick([]string{"[]", "[ ]", "[\t]", "  [   ]  "})
	case "no-equals":
		f.Text = r.Pick([]string{"justaword", "key value", "key : value", "\"quoted\"", "]", "x]", "-", "k\x00v", "ünï"})
	case "bad-quote":
		f.Text = r.Pick([]string{"k = \"abc", "k = \"a\\qb\"", "k = \"abc\" tail", "k = \"", "k = \"a\"b\"", "k=\"\\", "k = \"\\x\"", "k = \"abc\\\""})
	case "unknown-option":
		f.Text = r.Pick([]string{"nosuchkeyzz = 1", "NoSuchKeyZZ=", " zz9 = x y"})
		if r.Fork("adjacent").Chance(1, 2) {
			f.More = "alsonosuchzz = 2" // unknown options come in runs (the settings of another version of the program)
		}
	case "foreign-key":
		// a key that names an option of ANOTHER section (addressed earlier in the
		// file) is unknown in the section where it now appears
		e := prev()
		ok := false
		if e != nil && e.Section != "" {
			for _, idx := range p.NoisyOrder[:f.At] {
				o := p.Entries[idx]
				if o.Section != e.Section && o.Section != "" && strings.ToLower(o.Section) != strings.ToLower(e.Section) && o.Opt != e.Opt && unrelatedGroups(o.Opt, e.Opt) {
					f.Text, ok = o.Key+" = "+o.valueText(), true
				}
			}
		}
		if ok {
			// the other section's key must not also name an option reachable from this section
			f.Kind = "unknown-option"
			f.More = ""
		} else {
			f.Kind = "unknown-option"
			f.Text = "nosuchkeyzz = 1"
		}
	case "empty-key":
		// a line that names no option at all
		f.Text = r.Pick([]string{"= 1", "=", " = x", "=true", "\t=\tk:v"})
	case "unknown-section":
		f.Text = "[No Such Group]"
		f.More = r.Pick([]string{"zz = 1", "a = b", ""})
	case "unknown-section-empty":
		f.Text = r.Pick([]string{"[No Such Group]", "[nosuchcmd.Options]", "[Application Options.Nope]"})
		if cs := d.allCmds(); len(cs) > 0 && r.Bool() {
			// a name that merely starts like a command's name
			c := cs[r.Intn(len(cs))]
			near := strings.Join(c.Path, ".") + r.Pick([]string{"s", "2", "-", "x.y", "_"})
			clash := false
			for _, o := range cs {
				if strings.Join(o.Path, ".") == near {
					clash = true
				}
			}
			if !clash {
				f.Text = "[" + near + "]"
			}
		}
	case "bad-choice", "func-with-arg", "unmarshal-fails":
		// an entry the option itself rejects (choice list, parameterless callback,
		// failing UnmarshalFlag): placed right after an entry of a suitable option
		e := prev()
		ok := false
		if e != nil {
			var spec *OptSpec
			for _, oi := range optInfos(d) {
				if oi.Path == e.Opt {
					spec = oi.O
				}
			}
			switch {
			case spec == nil:
			case f.Kind == "bad-choice" && len(spec.Choices) > 0:
				f.Text, ok = e.Key+" = purple", true
			case f.Kind == "func-with-arg" && strings.HasPrefix(e.Kind, "func()"):
				f.Text, ok = e.Key+" = "+r.Pick([]string{"x", "true", "1"}), true
			case f.Kind == "unmarshal-fails" && baseKind(e.Kind) == "um" && !isMapKind(e.Kind):
				f.Text, ok = e.Key+" = badvalue", true
			}
		}
		if !ok {
			f.Kind = "unknown-option"
			f.Text = "nosuchkeyzz = 1"
		}
	case "bad-value", "bad-map-quote":
		e := prev()
		ok := false
		if e != nil {
			bk := baseKind(e.Kind)
			if f.Kind == "bad-map-quote" {
				if isMapKind(e.Kind) {
					f.Text = e.Key + " = " + r.Pick([]string{"k:\"abc", "k:\"a\\qb\"", "k:\"x\"y"})
					ok = true
				}
			} else if isMapKind(e.Kind) && strings.Contains(mapKeyKind(e.Kind), "int") && !(strings.Contains(bk, "int") || strings.Contains(bk, "float") || bk == "bool" || bk == "duration") {
				// a key that does not convert, with a value that does
				f.Text = e.Key + " = " + r.Pick([]string{"two", "1x", "256x"}) + ":" + r.Pick([]string{"v", "1", "true"})
				if bk == "bool" {
					f.Text = e.Key + " = two:true"
				}
				ok = true
			} else if !isFuncKind(e.Kind) && (strings.Contains(bk, "int") || strings.Contains(bk, "float") || bk == "bool" || bk == "duration") {
				bad := r.Pick([]string{"notanumber", "12x", "--", "1.5.2", "0x", "∞"})
				// a well-formed number that the field's type cannot hold
				if oor := map[string]string{"uint8": "300", "int16": "40000", "uint": "-1", "int": "9223372036854775808"}[bk]; oor != "" && !isMapKind(e.Kind) && r.Chance(1, 2) {
					bad = oor
				}
				if isMapKind(e.Kind) {
					if mk := mapKeyKind(e.Kind); strings.Contains(mk, "int") && r.Bool() {
						bad = bad + ":1"
					} else if strings.Contains(bk, "int") || bk == "bool" {
						bad = "7:" + bad
						if mk == "string" {
							bad = "k:" + r.Pick([]string{"notanumber", "12x"})
						}
					} else {
						ok = false
						bad = ""
					}
				}
				if bad != "" {
					f.Text = e.Key + " = " + bad
					ok = true
				}
			}
		}
		if !ok {
			f.Kind = "unknown-option"
			f.Text = "nosuchkeyzz = 1"
		}
	}
	return f
}

// unrelatedGroups: the two option paths ("cmd|group/sub|Field") lie in different
// commands or under different top-level groups, so a section addressing one
// cannot reach the other (a section reaches its group and everything nested in it).
func unrelatedGroups(a, b string) bool {
	pa, pb := strings.SplitN(a, "|", 3), strings.SplitN(b, "|", 3)
	if len(pa) < 3 || len(pb) < 3 {
		return false
	}
	if pa[0] != pb[0] {
		return true
	}
	ta, tb := strings.SplitN(pa[1], "/", 2)[0], strings.SplitN(pb[1], "/", 2)[0]
	return ta != "" && tb != "" && ta != tb
}

func genChunkPlan(r *Rng, n int) ([]simrt.ReadStep, int) {
	var steps []simrt.ReadStep
	switch r.Intn(6) {
	case 0:
		return nil, 1 // byte at a time
	case 1:
		return nil, r.Pick2([]int{2, 3, 7, 4095, 4096, 4097, 100})
	}
	left := n
	// consecutive zero-byte reads so far: few - how many empty reads in a row a reader
	// of readers puts up with before it gives up (bufio: 100) is not for the
	// statement to fix; a handful is what any implementation must take
	zeros := 0
	for left > 0 && len(steps) < 400 {
		var c int
		switch r.Intn(8) {
		case 0:
			c = 0 // zero-byte read
			k := r.Range(1, 3)
			for i := 0; i < k && zeros < 3; i++ {
				steps = append(steps, simrt.ReadStep{N: 0})
				zeros++
			}
			continue
		case 1:
			c = 1
		case 2:
			c = r.Pick2([]int{4095, 4096, 4097, 8192})
		case 3:
			c = r.Range(1, 5)
		default:
			c = r.Range(1, 200)
		}
		if c > left {
			c = left
		}
		st := simrt.ReadStep{N: c}
		zeros = 0
		left -= c
		if left == 0 && r.Bool() {
			st.Err = "EOF" // data together with EOF
		}
		steps = append(steps, st)
	}
	return steps, 0
}

func (r *Rng) Pick2(xs []int) int { return xs[r.Intn(len(xs))] }

func (propC14) Gen(r *Rng, idx int, tier string) *Scenario {
	sc := &Scenario{Prop: "C14", C14: &C14Payload{}}
	sc.Decl = genDecl(r.Fork("decl"), c14Cfg())
	sc.World = WorldSpec{Cols: 80, Now: 1700000000}
	p := sc.C14
	sr := r.Fork("source")
	switch x := sr.Intn(10); {
	case x < 6:
		p.Source = "structured"
		sc.Family = "structured"
		genC14Structured(r.Fork("structured"), sc)
	case x < 8:
		p.Source = "torn"
		sc.Family = "torn"
		genC14Torn(r.Fork("torn"), sc)
	default:
		p.Source = "arbitrary"
		sc.Family = "arbitrary"
		sc.Decl.Reenter = sr.Chance(1, 3) // callbacks read another (empty) document through the same IniParser
		p.Arbitrary = BStr(genArbitraryIni(r.Fork("arb"), sc.Decl))
	}
	cr := r.Fork("chunks")
	text := p.currentText()
	p.ChunksB, p.RestB = genChunkPlan(cr, len(text))
	p.ViaFile = cr.Chance(1, 3)
	p.LateIgnore = p.Source == "structured" && cr.Chance(1, 6)
	p.AsDefaults = cr.Chance(1, 4)
	if cr.Chance(1, 6) && !p.LateIgnore {
		p.PriorLines = cr.Range(1, 9)
	}
	p.Stream = p.ViaFile && r.Fork("stream").Chance(1, 5)
	if ar := r.Fork("priorargv"); ar.Chance(1, 5) && len(sc.Decl.Commands) > 0 && !p.LateIgnore {
		// a command chain down to where no further command is required
		cs := sc.Decl.Commands
		for len(cs) > 0 {
			c := cs[ar.Intn(len(cs))]
			p.PriorArgv = append(p.PriorArgv, BStr(c.Name))
			if c.SubOptional && ar.Bool() {
				break
			}
			cs = c.Commands
		}
	}
	if br := r.Fork("priorbad"); br.Chance(1, 6) && p.Source == "structured" && !p.LateIgnore && p.PriorLines == 0 {
		var cands []C14Entry
		for _, e := range p.Entries {
			bk := baseKind(e.Kind)
			if !isFuncKind(e.Kind) && !isMapKind(e.Kind) && (strings.Contains(bk, "int") || strings.Contains(bk, "float") || bk == "duration") {
				cands = append(cands, e)
			}
		}
		if len(cands) > 0 {
			e := cands[br.Intn(len(cands))]
			p.PriorBad = BStr("[" + e.Section + "]\n" + e.Key + " = notanumber\n")
			p.AsDefaults = true
		}
	}
	if fr := r.Fork("priorfail"); fr.Chance(1, 5) && p.ViaFile && !p.LateIgnore && p.PriorLines == 0 && p.PriorBad == "" {
		p.PriorFail = true
	}
	if lr := r.Fork("lategroup"); lr.Chance(1, 6) && !p.LateIgnore && p.PriorLines == 0 && len(sc.Decl.Groups) > 0 && !p.PriorFail && p.PriorBad == "" {
		p.LateGroup = sc.Decl.Groups[lr.Intn(len(sc.Decl.Groups))].Name
	}
	if cr.Chance(1, 3) && len(text) > 0 {
		p.ErrAt = cr.Range(1, len(text))
		p.ErrKind = cr.Pick([]string{"EIO", "EINTR", "UNEXPECTED_EOF", "EACCES"})
		p.ErrWith = cr.Bool()
	}
	if cr.Chance(1, 10) {
		p.Stall = cr.Pick2([]int{5, 50, 99, 100, 101, 150})
	}
	if cr.Chance(1, 12) {
		p.OpenErr = cr.Pick([]string{"ENOENT", "EACCES", "EIO"})
	}
	return sc
}

func (p *C14Payload) currentText() string {
	switch p.Source {
	case "structured":
		s, _ := p.renderNoisy(true)
		return s
	case "arbitrary":
		return string(p.Arbitrary)
	}
	return ""
}

var arbAlphabet = []string{"[", "]", "=", "\"", "\\", ":", "'", "`", "%", "$", "\r", "\n", "\n", "\x00", "\xff", "\xc3", ";", "#", " ", "\t", "a", "b", "1", "-", ".", "é",
	"\xef", "\xef\xbb", "\xef\xbb\xbf", "\xfe\xff", "\x80", "\xbf", "\xe2\x80\xa8", "\u00a0", "\x1a", "\x0b", "\x0c", "\x85", "\x7f"}

func genArbitraryIni(r *Rng, d *DeclSpec) string {
	var b strings.Builder
	n := r.Pick2([]int{0, 1, 2, 5, 20, 60, 200, 200, 1000, 4096, 4097, 8192, 70000})
	if n > 1000 && !r.Chance(1, 3) {
		n = r.Range(0, 300)
	}
	ois := optInfos(d)
	for b.Len() < n {
		switch r.Intn(10) {
		case 0:
			if len(ois) > 0 {
				oi := ois[r.Intn(len(ois))]
				b.WriteString("[" + oi.Section + "]\n")
			}
		case 1, 2:
			if len(ois) > 0 {
				oi := ois[r.Intn(len(ois))]
				b.WriteString(r.Pick(iniKeySpellings(oi)) + r.Pick([]string{"=", " = ", "=\"", " = \"x\"", "= k:", " = k:\"", "=:", " = :", "= \"\""}) + r.Pick([]string{"", "1", "x", "\n", "k:v\n", "\"\n", ":\n", "'\n", "''\n", "'x\n", "k:'\n"}))
			}
		case 3:
			b.WriteString(strings.Repeat(r.Pick(arbAlphabet), r.Range(1, 5000)))
		case 4:
			// any byte value at all
			for i := r.Range(1, 6); i > 0; i-- {
				b.WriteByte(byte(r.Intn(256)))
			}
		default:
			for i := r.Range(1, 12); i > 0; i-- {
				b.WriteString(r.Pick(arbAlphabet))
			}
		}
	}
	return b.String()
}

func genC14Torn(r *Rng, sc *Scenario) {
	p := sc.C14
	ois := optInfos(sc.Decl)
	for _, oi := range ois {
		if isFuncKind(oi.O.Kind) || !r.Chance(2, 3) {
			continue
		}
		v := genStoreValue(r, oi.O.Kind, false)
		if baseKind(oi.O.Kind) == "string" && r.Chance(1, 3) && !isMapKind(oi.O.Kind) && !isSliceKind(oi.O.Kind) && !isPtrKind(oi.O.Kind) {
			v = V{T: BStr(r.Pick([]string{"a\nb", "tab\there", "quote\"d", "x\x01y", "long " + strings.Repeat("w", 5000)}))}
		}
		p.Stores = append(p.Stores, Op{Kind: "store", Path: oi.Path, Val: &v})
	}
	p.IniOpts = uint(r.Intn(8)) << 1
	// crash point: decided from the length of the complete file
	full := c14TornRun(sc, 0)
	f := string(full.Files["cfg.ini"])
	if len(f) < 2 {
		p.CrashAfter = 1
		return
	}
	if r.Chance(1, 3) {
		// not a crash: one stored byte goes bad
		p.FlipAt = r.Range(1, len(f))
		p.FlipTo = r.Pick2([]int{0, 0xff, '\n', '"', '=', '[', ']', ':', ';', ' ', 0x80, '\\'})
	}
	switch r.Intn(4) {
	case 0: // at a write boundary
		sizes := full.Stats
		_ = sizes
		p.CrashAfter = r.Range(1, len(f)-1)
		if i := strings.LastIndex(f[:p.CrashAfter], "\n"); i > 0 {
			p.CrashAfter = i + 1
		}
	case 1:
		p.CrashAfter = r.Range(1, len(f)-1)
		if i := strings.LastIndex(f[:p.CrashAfter], "="); i > 0 {
			p.CrashAfter = i + r.Range(0, 2)
		}
	default:
		p.CrashAfter = r.Range(1, len(f)-1)
	}
	if p.CrashAfter < 1 {
		p.CrashAfter = 1
	}
}

// c14TornRun: boot 1 stores values and writes the INI file, dying after
// crashAfter bytes (0 = completes); boot 2 reads the file back.
func c14TornRun(sc *Scenario, crashAfter int) *Outcome {
	p := sc.C14
	s2 := *sc
	s2.Ops = append([]Op{}, p.Stores...)
	s2.Ops = append(s2.Ops,
		Op{Kind: "iniwrite", File: "cfg.ini", IniOpts: p.IniOpts, CrashAfter: crashAfter},
		Op{Kind: "reboot"},
		Op{Kind: "iniread", File: "cfg.ini"})
	return Execute(&s2, nil)
}

func lastOp(o *Outcome) *OpResult { return &o.Ops[len(o.Ops)-1] }

func lastOpCrashed(o *Outcome) bool {
	for _, r := range o.Ops {
		if r.Crash {
			return true
		}
	}
	return false
}

func abnormal(r *OpResult) string {
	switch {
	case r.Panic != "":
		return "panic: " + r.Panic
	case r.Hang != "":
		return "hang: " + r.Hang
	case r.Budget:
		return fmt.Sprintf("hang: loop-step budget exceeded (%d steps)", r.Ticks)
	case r.Exit:
		return "process exit"
	}
	return ""
}

func readSummary(r *OpResult) string {
	return fmt.Sprintf("err=%s/%s line=%d msg=%q values=%s calls=%s", r.Err, r.ErrType, r.Line, clip(string(r.Msg), 200), clip(strings.Join(r.Values, "; "), 1500), clip(mustJSON(r.Calls), 400))
}

func sameRead(a, b *OpResult) bool {
	return a.Err == b.Err && a.ErrType == b.ErrType && a.Line == b.Line && a.Msg == b.Msg &&
		strings.Join(a.Values, "\n") == strings.Join(b.Values, "\n") && mustJSON(a.Calls) == mustJSON(b.Calls)
}

// sameReadUpToCallOrder: interleaving sections legitimately changes the order
// in which different options' callbacks run; per callee the calls must agree.
func sameReadUpToCallOrder(a, b *OpResult) bool {
	ca, cb := *a, *b
	sortCalls := func(cs []Call) []Call {
		out := append([]Call{}, cs...)
		sort.SliceStable(out, func(i, j int) bool {
			ki := out[i].Kind + "\x00" + strings.SplitN(string(out[i].Who), "(", 2)[0]
			kj := out[j].Kind + "\x00" + strings.SplitN(string(out[j].Who), "(", 2)[0]
			return ki < kj
		})
		return out
	}
	ca.Calls, cb.Calls = sortCalls(a.Calls), sortCalls(b.Calls)
	return sameRead(&ca, &cb)
}

func c14Read(sc *Scenario, data string, chunks []simrt.ReadStep, rest int, viaFile bool) (*Outcome, *OpResult) {
	s2 := *sc
	op := Op{Kind: "iniread", Chunks: chunks, Rest: rest, AsDefaults: sc.C14 != nil && sc.C14.AsDefaults}
	if len(chunks) == 1 && chunks[0].N < 0 {
		// positional failure: {N: -at, Err: kind or "kind+with"}
		op.Chunks = nil
		op.FailAt = -chunks[0].N
		op.FailErr = strings.TrimSuffix(chunks[0].Err, "+with")
		op.FailWith = strings.HasSuffix(chunks[0].Err, "+with")
	}
	if viaFile {
		s2.World.StreamFiles = sc.C14 != nil && sc.C14.Stream
		s2.World.Files = map[string]BStr{"in.ini": BStr(data)}
		op.File = "in.ini"
	} else {
		op.Data = BStr(data)
	}
	s2.Ops = []Op{op}
	if sc.C14 != nil && sc.C14.PriorLines > 0 {
		s2.Ops = []Op{{Kind: "iniread", Data: BStr(strings.Repeat("; an earlier document\n", sc.C14.PriorLines))}, op}
	}
	if sc.C14 != nil && sc.C14.LateGroup != "" && sc.C14.PriorLines == 0 && !sc.C14.LateIgnore {
		d2 := *sc.Decl
		d2.LateGroups = []string{sc.C14.LateGroup}
		s2.Decl = &d2
		s2.Ops = []Op{{Kind: "iniread", Data: BStr("[" + sc.C14.LateGroup + "]\nnot-yet = 1\n")}, {Kind: "addgroup"}, op}
	}
	if sc.C14 != nil && sc.C14.PriorBad != "" && sc.C14.PriorLines == 0 && !sc.C14.LateIgnore && sc.C14.LateGroup == "" {
		s2.Ops = []Op{{Kind: "iniread", Data: sc.C14.PriorBad, AsDefaults: true}, op}
	}
	if sc.C14 != nil && sc.C14.PriorFail && sc.C14.PriorBad == "" && viaFile && sc.C14.PriorLines == 0 && !sc.C14.LateIgnore && sc.C14.LateGroup == "" {
		// first the path holds a document that is rejected, then (Data set on a file
		// read: the file is rewritten first) the document to be judged
		bad := Op{Kind: "iniread", File: "in.ini", AsDefaults: op.AsDefaults}
		s2.World.Files = map[string]BStr{"in.ini": BStr("[No Such Section ZZ]\nkey = 1\nk2 = notanumber\n")}
		op.Data, op.Rewrite = BStr(data), true
		s2.Ops = []Op{bad, op}
	}
	if sc.C14 != nil && sc.C14.LateIgnore {
		d2 := *sc.Decl
		d2.Options ^= optIgnoreUnknown
		s2.Decl = &d2
		op.UseKept = true
		s2.Ops = []Op{{Kind: "newini"}, {Kind: "setopts", IniOpts: sc.Decl.Options}, op}
	}
	if sc.C14 != nil && len(sc.C14.PriorArgv) > 0 && !sc.C14.LateIgnore {
		s2.Ops = append([]Op{{Kind: "parse", Argv: sc.C14.PriorArgv}}, s2.Ops...)
	}
	o := Execute(&s2, nil)
	return o, lastOp(o)
}

func errorPlan(n, at int, kind string, withData bool) []simrt.ReadStep {
	if at > n {
		at = n
	}
	if at < 1 {
		at = 1
	}
	if withData {
		kind += "+with"
	}
	return []simrt.ReadStep{{N: -at, Err: kind}}
}

func (propC14) Judge(sc *Scenario) *Verdict {
	v := &Verdict{OK: true}
	p := sc.C14
	if p == nil {
		return harnessTrouble(v, "C14 scenario without payload")
	}
	faultKinds := map[string]bool{}
	run := func(label, data string, chunks []simrt.ReadStep, rest int) *OpResult {
		o, r := c14Read(sc, data, chunks, rest, p.ViaFile)
		v.Evals++
		v.addStats(o.Stats)
		for k := range o.Stats {
			if strings.HasPrefix(k, "fault.") || strings.HasPrefix(k, "read.") {
				faultKinds[k] = true
			}
		}
		if o.HarnessPanic != "" {
			v.Trouble = o.HarnessPanic
		}
		if o.DeclErr != "" {
			v.NotJudged = "declaration rejected"
		}
		if ab := abnormal(r); ab != "" {
			v.fail("c14:abnormal:"+strings.SplitN(ab, ":", 2)[0], fmt.Sprintf("reading INI (%s, %d bytes) did not return normally: %s\ninput: %s", label, len(data), ab, q(clip(data, 600))))
		}
		return r
	}
	lineClass := "short"
	outcome := ""
	parsedEntry := false
	noisePresent := false

	switch p.Source {
	case "structured":
		ignore := sc.Decl.Options&optIgnoreUnknown != 0
		declared := map[string]bool{}
		for _, oi := range optInfos(sc.Decl) {
			declared[oi.Path] = true
		}
		for _, e := range p.Entries {
			if !declared[e.Opt] {
				v.NotJudged = "an entry addresses an option that is not declared"
			}
		}
		if v.NotJudged != "" {
			break
		}
		canon := p.renderCanonical()
		noisy, _ := p.renderNoisy(false)
		faulty, fline := p.renderNoisy(true)
		for _, l := range strings.Split(faulty, "\n") {
			if len(l) > 65536 {
				lineClass = ">64k"
			} else if len(l) > 4096 && lineClass == "short" {
				lineClass = ">4k"
			}
		}
		noisePresent = noisy != canon || p.Fault != nil
		rc := run("canonical", canon, nil, 0)
		if v.Trouble != "" || !v.OK || v.NotJudged != "" {
			break
		}
		parsedEntry = len(p.Entries) > 0
		// 1. the canonical text means what the entries say (reference model)
		if rc.Err != "" {
			v.fail("c14:valid-file-rejected", fmt.Sprintf("a valid INI text was rejected: %s\ninput: %s", readSummary(rc), q(clip(canon, 800))))
			break
		}
		texts := map[string][]string{}
		kinds := map[string]string{}
		for _, e := range p.Entries {
			texts[e.Opt] = append(texts[e.Opt], string(e.Val))
			kinds[e.Opt] = e.Kind
		}
		vals := map[string]string{}
		for _, l := range rc.Values {
			if i := strings.Index(l, " = "); i > 0 {
				vals[l[:i]] = l[i+3:]
			}
		}
		for _, opt := range sortedKeys(texts) {
			k := kinds[opt]
			if isFuncKind(k) {
				continue
			}
			want, err := modelApply(k, texts[opt])
			if err != nil {
				v.NotJudged = "model cannot convert generated text"
				continue
			}
			if got := vals[opt]; got != dumpV(k, want) {
				v.fail("c14:value-not-applied", fmt.Sprintf("after reading a valid INI text option %s (%s) holds %s, entries %q denote %s\ninput: %s", opt, k, got, texts[opt], dumpV(k, want), q(clip(canon, 800))))
			}
		}
		if !v.OK {
			break
		}
		// 2. noise does not change what the other lines mean
		rn := run("noisy", noisy, nil, 0)
		if !v.OK {
			break
		}
		if !sameReadUpToCallOrder(rc, rn) {
			v.fail("c14:noise-changes-meaning", fmt.Sprintf("blank lines / comments / whitespace / CRLF / long lines / section interleaving changed the result:\n  plain: %s\n  noisy: %s\nplain input: %s\nnoisy input: %s", readSummary(rc), readSummary(rn), q(clip(canon, 600)), q(clip(noisy, 1200))))
			break
		}
		// 3. chunking independence on the noisy text
		rb := run("noisy/fragmented", noisy, p.ChunksB, p.RestB)
		if !v.OK {
			break
		}
		if !sameRead(rn, rb) {
			v.fail("c14:chunking-changes-result", fmt.Sprintf("the same bytes delivered in different read sizes gave different results:\n  one chunk: %s\n  fragmented: %s\ninput: %s", readSummary(rn), readSummary(rb), q(clip(noisy, 1200))))
			break
		}
		// 4. one faulty line at a known physical line
		if p.Fault != nil {
			rf := run("faulty", faulty, p.ChunksB, p.RestB)
			if !v.OK {
				break
			}
			fk := p.Fault.Kind
			ignorable := fk == "unknown-option" || fk == "empty-key" || fk == "unknown-section" || fk == "unknown-section-empty"
			outcome = "fault:" + fk
			switch {
			case ignorable && ignore:
				if !sameRead(rn, rf) {
					v.fail("c14:ignore-unknown", fmt.Sprintf("under IgnoreUnknown an unknown %s must be skipped and everything else applied:\n  without it: %s\n  with it:    %s\ninput: %s", fk, readSummary(rn), readSummary(rf), q(clip(faulty, 1200))))
				}
			case fk == "unknown-section" || fk == "unknown-section-empty":
				if rf.Err != "flags.Error" || rf.ErrType != "unknown group" {
					v.fail("c14:unknown-section-not-reported", fmt.Sprintf("an unknown section (line %d) must be reported as ErrUnknownGroup, got %s\ninput: %s", fline, readSummary(rf), q(clip(faulty, 1200))))
				}
			default:
				if rf.Err != "flags.IniError" {
					v.fail("c14:fault-not-reported", fmt.Sprintf("faulty line %d (%s: %q) must be reported as an IniError, got %s\ninput: %s", fline, fk, p.Fault.Text, readSummary(rf), q(clip(faulty, 1200))))
				} else if int(rf.Line) != fline && !(fk == "unknown-option" && p.Fault.More != "" && int(rf.Line) == fline+1) {
					// (of two offending lines next to each other either one may be named)
					v.fail("c14:wrong-line-number", fmt.Sprintf("faulty line is physical line %d (%s: %q) but the error says line %d: %s\ninput: %s", fline, fk, p.Fault.Text, rf.Line, readSummary(rf), q(clip(faulty, 1200))))
				}
			}
		} else {
			outcome = "clean"
		}
	case "arbitrary":
		data := string(p.Arbitrary)
		ra := run("arbitrary", data, nil, 0)
		if !v.OK || v.Trouble != "" {
			break
		}
		rb := run("arbitrary/fragmented", data, p.ChunksB, p.RestB)
		if !v.OK {
			break
		}
		if !sameRead(ra, rb) {
			v.fail("c14:chunking-changes-result", fmt.Sprintf("the same bytes delivered in different read sizes gave different results:\n  one chunk: %s\n  fragmented: %s\ninput: %s", readSummary(ra), readSummary(rb), q(clip(data, 1200))))
		}
		outcome = "arb:" + ra.Err
		parsedEntry = strings.Contains(data, "=")
		noisePresent = true
		if len(data) > 4096 {
			lineClass = ">4k"
		}
	case "torn":
		full := c14TornRun(sc, 0)
		v.Evals++
		v.addStats(full.Stats)
		if full.HarnessPanic != "" {
			v.Trouble = full.HarnessPanic
			break
		}
		f := string(full.Files["cfg.ini"])
		rfull := lastOp(full)
		if ab := abnormal(rfull); ab != "" {
			v.fail("c14:abnormal:"+strings.SplitN(ab, ":", 2)[0], "reading back a file written by the library did not return normally: "+ab+"\nfile: "+q(clip(f, 800)))
			break
		}
		if rfull.Err != "" || len(f) < 2 {
			v.NotJudged = "complete file not readable (round-trip is C12's business)"
			break
		}
		if p.FlipAt > 0 {
			// stored byte corrupted: the read must return normally and must not depend on read sizes
			pos := p.FlipAt - 1
			if pos >= len(f) {
				pos = len(f) - 1
			}
			data := f[:pos] + string([]byte{byte(p.FlipTo)}) + f[pos+1:]
			ra := run("one stored byte corrupted", data, nil, 0)
			if v.OK {
				rb := run("one stored byte corrupted/fragmented", data, p.ChunksB, p.RestB)
				if v.OK && !sameRead(ra, rb) {
					v.fail("c14:chunking-changes-result", fmt.Sprintf("the same bytes delivered in different read sizes gave different results:\n  one chunk: %s\n  fragmented: %s\ninput: %s", readSummary(ra), readSummary(rb), q(clip(data, 1200))))
				}
			}
			v.stat("probe.stored-byte-corrupted")
			outcome = "corrupt:" + ra.Err
			parsedEntry = strings.Contains(data, "=")
			noisePresent = true
			break
		}
		k := p.CrashAfter
		if k >= len(f) {
			k = len(f) - 1
		}
		if k < 1 {
			k = 1
		}
		torn := c14TornRun(sc, k)
		v.Evals++
		v.addStats(torn.Stats)
		for kk := range torn.Stats {
			if strings.HasPrefix(kk, "fault.") {
				faultKinds[kk] = true
			}
		}
		if torn.HarnessPanic != "" {
			v.Trouble = torn.HarnessPanic
			break
		}
		got := string(torn.Files["cfg.ini"])
		if !lastOpCrashed(torn) {
			v.Trouble = fmt.Sprintf("the simulated crash after %d bytes did not happen", k)
			break
		}
		if got != f[:k] {
			// the writer does not write the final path in place (e.g. temporary file
			// + rename): whatever is there, reading it must return normally
			v.stat("probe.torn-file-not-a-prefix")
			if ab := abnormal(lastOp(torn)); ab != "" {
				v.fail("c14:abnormal:"+strings.SplitN(ab, ":", 2)[0], fmt.Sprintf("reading the configuration after a crash during WriteFile did not return normally: %s", ab))
			}
			outcome = "torn:not-in-place"
			break
		}
		rt := lastOp(torn)
		if ab := abnormal(rt); ab != "" {
			v.fail("c14:abnormal:"+strings.SplitN(ab, ":", 2)[0], fmt.Sprintf("reading a file torn by a crash after %d of %d bytes did not return normally: %s\ntorn file: %s", k, len(f), ab, q(clip(got, 800))))
			break
		}
		tornLine := strings.Count(f[:k], "\n") + 1
		atBoundary := f[k-1] == '\n'
		outcome = "torn:" + rt.Err
		parsedEntry = strings.Contains(got, "=")
		noisePresent = true
		if atBoundary {
			if rt.Err != "" {
				v.fail("c14:torn-at-line-boundary-rejected", fmt.Sprintf("file cut exactly at a line boundary (%d of %d bytes; all lines intact) was rejected: %s\ntorn file: %s", k, len(f), readSummary(rt), q(clip(got, 800))))
			}
		} else if rt.Err != "" {
			if rt.Err != "flags.IniError" || int(rt.Line) != tornLine {
				v.fail("c14:torn-error-misplaced", fmt.Sprintf("file torn inside line %d (crash after %d of %d bytes): every earlier line is intact, so an error must be an IniError at line %d; got %s\ntorn file: %s", tornLine, k, len(f), tornLine, readSummary(rt), q(clip(got, 800))))
			}
		}
	}
	if v.Trouble != "" {
		return v
	}
	// reader-error run and stall run: only "returns normally" is demanded
	if v.OK && v.NotJudged == "" && p.Source != "torn" {
		text := p.currentText()
		if p.ErrAt > 0 && len(text) > 0 {
			at := p.ErrAt
			if at > len(text) {
				at = len(text)
			}
			r := run("read error", text, errorPlan(len(text), at, p.ErrKind, p.ErrWith), 0)
			if v.OK && r.ReaderErr != "" {
				// An I/O error may make the read fail, or cut the input short; it must
				// never produce a result that neither the error nor the delivered
				// prefix explains.
				// Any error is an acceptable outcome of a failing stream (whatever its
				// type or wording). Only a read that CLAIMS SUCCESS is held to account:
				// it must then mean exactly what the delivered bytes mean.
				if r.Err != "" {
					v.stat("probe.read-error-reported-as-error")
				} else {
					v.stat("probe.read-error-masked-success")
					pre := run("delivered prefix", text[:at], nil, 0)
					if v.OK && !sameRead(pre, r) {
						v.fail("c14:io-error-corrupts-result", fmt.Sprintf("a read error (%s after %d of %d bytes) was not reported, the read returned success, and the result differs from reading just the %d delivered bytes:\n  with error: %s\n  prefix only: %s\ninput prefix: %s",
							p.ErrKind, at, len(text), at, readSummary(r), readSummary(pre), q(clip(text[:at], 800))))
					}
				}
			}
		}
		if v.OK && p.OpenErr != "" {
			s2 := *sc
			s2.World.Files = map[string]BStr{"in.ini": BStr(text)}
			s2.Ops = []Op{{Kind: "iniread", File: "in.ini", OpenErr: p.OpenErr}}
			o := Execute(&s2, nil)
			v.Evals++
			v.addStats(o.Stats)
			r := lastOp(o)
			if ab := abnormal(r); ab != "" {
				v.fail("c14:abnormal:"+strings.SplitN(ab, ":", 2)[0], "ParseFile on a file that cannot be opened ("+p.OpenErr+") did not return normally: "+ab)
			} else if r.Err == "" {
				v.fail("c14:open-error-ignored", "ParseFile reported success although the file could not be opened ("+p.OpenErr+")")
			}
		}
		if v.OK && p.Stall > 0 {
			var steps []simrt.ReadStep
			for i := 0; i < p.Stall; i++ {
				steps = append(steps, simrt.ReadStep{N: 0})
			}
			one := run("baseline for stall", text, nil, 0)
			r := run("stalled reader", text, steps, 0)
			if v.OK && p.Stall < 100 && !sameRead(one, r) && r.Err != "" {
				// many empty reads in a row: giving up with an error is the reader's right
				v.stat("probe.stalled-reader-given-up")
			} else if v.OK && p.Stall < 100 && !sameRead(one, r) {
				v.fail("c14:stall-changes-result", fmt.Sprintf("%d zero-byte reads changed the result (other than into an error):\n  plain: %s\n  stalled: %s", p.Stall, readSummary(one), readSummary(r)))
			}
			if p.Stall >= 100 {
				v.stat("probe.stall>=100")
			}
		}
	}
	var fk []string
	for k := range faultKinds {
		fk = append(fk, k)
	}
	sort.Strings(fk)
	fkind := ""
	if p.Fault != nil {
		fkind = p.Fault.Kind
	}
	v.Sig = strings.Join([]string{"C14", p.Source, strings.Join(fk, "+"), fkind, lineClass, outcome}, "|")
	v.NonTrivial = parsedEntry && (len(fk) > 0 || noisePresent)
	return v
}

func (propC14) Reductions(sc *Scenario) []func(*Scenario) bool {
	var out []func(*Scenario) bool
	p := sc.C14
	if p == nil {
		return nil
	}
	out = append(out,
		func(s *Scenario) bool { s.C14.ChunksB, s.C14.RestB = nil, 0; return true },
		func(s *Scenario) bool { s.C14.ChunksB, s.C14.RestB = nil, 1; return true },
		func(s *Scenario) bool { s.C14.ErrAt, s.C14.Stall = 0, 0; return true },
		func(s *Scenario) bool { s.C14.ViaFile = false; return true },
		func(s *Scenario) bool { s.C14.LateIgnore = false; return true },
		func(s *Scenario) bool { s.C14.AsDefaults = false; return true },
		func(s *Scenario) bool { s.C14.PriorLines = 0; return true },
		func(s *Scenario) bool {
			if s.C14.LateGroup == "" {
				return false
			}
			s.C14.LateGroup = ""
			return true
		},
		func(s *Scenario) bool {
			if !s.C14.PriorFail {
				return false
			}
			s.C14.PriorFail = false
			return true
		},
		func(s *Scenario) bool {
			if s.C14.PriorBad == "" {
				return false
			}
			s.C14.PriorBad = ""
			return true
		},
		func(s *Scenario) bool {
			if len(s.C14.PriorArgv) == 0 {
				return false
			}
			s.C14.PriorArgv = nil
			return true
		},
		func(s *Scenario) bool { s.C14.TailNoise = nil; return true },
		func(s *Scenario) bool { s.C14.NoFinalEOL = false; return true },
		func(s *Scenario) bool {
			if s.C14.Fault == nil {
				return false
			}
			s.C14.Fault = nil
			return true
		},
		func(s *Scenario) bool {
			if s.C14.Fault == nil || s.C14.Fault.More == "" {
				return false
			}
			s.C14.Fault.More = ""
			return true
		},
	)
	for i := range p.Entries {
		i := i
		out = append(out, func(s *Scenario) bool {
			q := s.C14
			if i >= len(q.Entries) {
				return false
			}
			q.Entries = append(q.Entries[:i:i], q.Entries[i+1:]...)
			var no []int
			for _, x := range q.NoisyOrder {
				if x == i {
					continue
				}
				if x > i {
					x--
				}
				no = append(no, x)
			}
			q.NoisyOrder = no
			if q.Fault != nil && q.Fault.At > len(q.Entries) {
				q.Fault.At = len(q.Entries)
			}
			return true
		})
		out = append(out, func(s *Scenario) bool {
			if i >= len(s.C14.Entries) {
				return false
			}
			e := &s.C14.Entries[i]
			e.Pre, e.Eq1, e.Eq2, e.Post, e.CRLF, e.Noise, e.HdrDeco = "", " ", " ", "", false, nil, ""
			return true
		})
		out = append(out, func(s *Scenario) bool {
			if i >= len(s.C14.Entries) || len(s.C14.Entries[i].Val) < 20 {
				return false
			}
			e := &s.C14.Entries[i]
			if isMapKind(e.Kind) {
				e.Val = BStr(strings.SplitN(string(e.Val), ":", 2)[0] + ":v")
			} else {
				e.Val = "v"
			}
			return true
		})
	}
	if len(p.NoisyOrder) > 0 {
		out = append(out, func(s *Scenario) bool { s.C14.NoisyOrder = nil; return true })
	}
	if p.Source == "arbitrary" {
		data := string(p.Arbitrary)
		// halves, then line-wise, then byte-wise for short inputs
		out = append(out,
			func(s *Scenario) bool {
				d := string(s.C14.Arbitrary)
				s.C14.Arbitrary = BStr(d[:len(d)/2])
				return len(d) > 1
			},
			func(s *Scenario) bool {
				d := string(s.C14.Arbitrary)
				s.C14.Arbitrary = BStr(d[len(d)/2:])
				return len(d) > 1
			},
		)
		lines := strings.SplitAfter(data, "\n")
		if len(lines) > 1 && len(lines) < 400 {
			for j := range lines {
				j := j
				out = append(out, func(s *Scenario) bool {
					ls := strings.SplitAfter(string(s.C14.Arbitrary), "\n")
					if j >= len(ls) {
						return false
					}
					s.C14.Arbitrary = BStr(strings.Join(append(ls[:j:j], ls[j+1:]...), ""))
					return true
				})
			}
		}
		if len(data) <= 80 {
			for j := range data {
				j := j
				out = append(out, func(s *Scenario) bool {
					d := string(s.C14.Arbitrary)
					if j >= len(d) {
						return false
					}
					s.C14.Arbitrary = BStr(d[:j] + d[j+1:])
					return true
				})
			}
		}
	}
	for i := range p.Stores {
		i := i
		out = append(out, func(s *Scenario) bool {
			if i >= len(s.C14.Stores) {
				return false
			}
			s.C14.Stores = append(s.C14.Stores[:i:i], s.C14.Stores[i+1:]...)
			return true
		})
	}
	if p.FlipAt > 0 {
		out = append(out, func(s *Scenario) bool { s.C14.FlipAt = 0; return true })
	}
	if p.Source == "torn" && p.IniOpts != 0 {
		out = append(out, func(s *Scenario) bool { s.C14.IniOpts = 0; return true })
	}
	return out
}
