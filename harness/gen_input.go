package main

import (
	"strings"
)

// ---- structured INI text ---------------------------------------------------

// IniEntry is one logical "key = value" line addressed to a section.
type IniEntry struct {
	Section string `json:"section"`
	Key     string `json:"key"`
	Val     string `json:"val"`
	Opt     string `json:"opt,omitempty"` // option path it addresses ("" = none / unknown)
}

// renderIni writes entries in order, emitting a header whenever the section
// changes. Entries for the global section ("") must come first to be global.
func renderIni(es []IniEntry) string {
	var b strings.Builder
	cur := ""
	for _, e := range es {
		if e.Section != cur {
			b.WriteString("[" + e.Section + "]\n")
			cur = e.Section
		}
		b.WriteString(e.Key + " = " + e.Val + "\n")
	}
	return b.String()
}

// sectionOf gives the canonical INI section name addressing the group of an
// option (computed from the spec).
func sectionOf(ref optRef, own bool) string {
	s := strings.Join(ref.CmdPath, ".")
	if own {
		return s
	}
	if s != "" && ref.G.Name != "" {
		s += "." // (an unnamed group of a command is written under the command's own section)
	}
	return s + ref.G.Name
}

type optInfo struct {
	optRef
	Own      bool
	Section  string
	Path     string
	LongFull string
	EnvFull  string
	EnvNS    []string // env-namespaces of the enclosing groups and commands, outermost first
}

func appendNS(ns []string, n string) []string {
	if n == "" {
		return ns
	}
	return append(append([]string{}, ns...), n)
}

// optInfos lists all options of a declaration with their computed names: the
// long name with the namespaces of every enclosing group, command and the
// parser; the env key with the env-namespaces likewise.
func optInfos(d *DeclSpec) []optInfo {
	var out []optInfo
	var rec func(g *GroupSpec, cp []string, own bool, ns, ens []string, gpath string)
	rec = func(g *GroupSpec, cp []string, own bool, ns, ens []string, gpath string) {
		ns, ens = appendNS(ns, g.Namespace), appendNS(ens, g.EnvNamespace)
		for _, o := range g.Opts {
			oi := optInfo{optRef: optRef{o, g, cp}, Own: own}
			oi.Section = sectionOf(oi.optRef, own)
			oi.Path = strings.Join(cp, ".") + "|" + gpath + "|" + o.Field
			if o.Long != "" {
				oi.LongFull = strings.Join(append(append([]string{}, ns...), o.Long), nsDelim(d))
			}
			if o.Env != "" {
				oi.EnvFull = strings.Join(append(append([]string{}, ens...), o.Env), envNSDelim(d))
				oi.EnvNS = append([]string{}, ens...)
			}
			out = append(out, oi)
		}
		for _, s := range g.Sub {
			rec(s, cp, false, ns, ens, gpath+"/"+s.Name)
		}
	}
	ns0, ens0 := appendNS(nil, d.Namespace), appendNS(nil, d.EnvNamespace)
	if d.Root != nil {
		rec(d.Root, nil, false, ns0, ens0, d.Root.Name)
	}
	for _, g := range d.Groups {
		rec(g, nil, false, ns0, ens0, g.Name)
	}
	var recC func(cs []*CmdSpec, path []string, ns, ens []string)
	recC = func(cs []*CmdSpec, path []string, ns, ens []string) {
		for _, c := range cs {
			p := append(append([]string{}, path...), c.Name)
			cns, cens := appendNS(ns, c.Namespace), appendNS(ens, c.EnvNamespace)
			if c.Own != nil {
				if c.Exec {
					rec(c.Own, p, false, cns, cens, c.Own.Name)
				} else {
					rec(c.Own, p, true, cns, cens, "")
				}
			}
			for _, g := range c.Groups {
				rec(g, p, false, cns, cens, g.Name)
			}
			recC(c.Commands, p, cns, cens)
		}
	}
	recC(d.Commands, nil, ns0, ens0)
	return out
}

// iniKeySpellings: the documented ways an INI key may name an option.
func iniKeySpellings(oi optInfo) []string {
	o := oi.O
	ks := []string{o.Field}
	if o.IniName != "" {
		ks = append(ks, o.IniName)
	}
	if oi.LongFull != "" {
		ks = append(ks, oi.LongFull)
	}
	if o.Short != "" {
		ks = append(ks, o.Short)
	}
	return ks
}

// iniValText gives a valid INI value text for the option kind.
func iniValText(r *Rng, o *OptSpec) string {
	k := o.Kind
	if len(o.Choices) > 0 {
		return r.Pick(o.Choices)
	}
	if isFuncKind(k) {
		if strings.HasPrefix(k, "func()") {
			return ""
		}
		return genPlainText(r, k[5:strings.Index(k, ")")])
	}
	if isMapKind(k) {
		return genPlainText(r, mapKeyKind(k)) + ":" + genPlainText(r, elemKind(k))
	}
	if o.Base != 0 {
		if bk := baseKind(k); bk == "int8" || bk == "uint8" {
			return r.Pick([]string{"0", "1", "10", "11"}) // (101 in base 16 or 36 is more than eight bits hold)
		}
		return r.Pick([]string{"0", "1", "10", "11", "101"})
	}
	return genPlainText(r, k)
}

// ---- loose argument vectors -------------------------------------------------

// genArgvLoose builds an argument vector that mentions declared options,
// commands and junk in arbitrary arrangement (no validity intended).
func genArgvLoose(r *Rng, d *DeclSpec, n int) []string {
	ois := optInfos(d)
	cmds := d.allCmds()
	var out []string
	for len(out) < n {
		switch r.Intn(12) {
		case 0, 1, 2, 3, 4:
			if len(ois) == 0 {
				continue
			}
			oi := ois[r.Intn(len(ois))]
			o := oi.O
			val := iniValText(r, o)
			if r.Chance(1, 14) {
				val = r.Pick([]string{"x!y", "maybe", "12x", "k:x!y", "purple"})
			}
			flag := isBoolFlag(o.Kind)
			if oi.LongFull != "" && (o.Short == "" || r.Bool()) {
				switch {
				case flag:
					out = append(out, "--"+oi.LongFull)
				case r.Bool():
					out = append(out, "--"+oi.LongFull+"="+val)
				default:
					out = append(out, "--"+oi.LongFull, val)
				}
			} else if o.Short != "" {
				switch {
				case flag:
					out = append(out, "-"+o.Short)
				case r.Intn(3) == 0:
					out = append(out, "-"+o.Short+val)
				case r.Intn(2) == 0:
					out = append(out, "-"+o.Short+"="+val)
				default:
					out = append(out, "-"+o.Short, val)
				}
			}
		case 5, 6:
			if len(cmds) > 0 {
				c := cmds[r.Intn(len(cmds))]
				name := c.C.Name
				if len(c.C.Aliases) > 0 && r.Bool() {
					name = c.C.Aliases[0]
				}
				out = append(out, name)
			} else {
				out = append(out, r.Pick(plainWords))
			}
		case 7:
			out = append(out, r.Pick(plainWords))
		case 8:
			out = append(out, r.Pick([]string{"--", "-", "--nope", "-!", "--x=1", "---", "-=", "--=", "ad", "rmm", "shwo", "5", "-5"}))
		case 9:
			out = append(out, r.Pick([]string{"--help", "-h"}))
		default:
			out = append(out, r.Pick(plainWords))
		}
	}
	if len(out) > n {
		out = out[:n]
	}
	return out
}

// adversarialTokens are shapes no unit test feeds.
var adversarialTokens = []string{
	"", "-", "--", "---", "---x", "-=", "--=", "-x=", "=", "==", "-=x", "--=x", "\"", "\"abc", "\"abc\"", "\"a\\", "-\"", "--\"x\"",
	"-é", "-世x", "-\xff", "-a\xffb", "--\xff", "-é=1", "--é=\"", "-ß世", "- ", "-- ", " -a", "-\x00", "--\x00=\x00", "-a=", "--a=", "-ab=c",
	"-1", "-1.5", "--1", "-.5", "-.", "-..", "-1.", "-1e", "-e", "+1", "%s", "--100%s", "-%d", "5%d", "%!s(MISSING)", "--%v=%v", "100%", "%%", "0x10", "-0", "--no-", "-a-b", "-a--", "--a--b", "-\t", "-\n", "--help=1", "-h=1", "-hh", "--help--",
}

func genArgvAdversarial(r *Rng, d *DeclSpec, n int) []string {
	ois := optInfos(d)
	var out []string
	for len(out) < n {
		switch r.Intn(10) {
		case 0, 1, 2:
			out = append(out, r.Pick(adversarialTokens))
		case 3:
			out = append(out, strings.Repeat(r.Pick([]string{"-", "x", "=", "é", "-x"}), r.Range(1, 3000)))
		case 4, 5:
			if len(ois) > 0 {
				oi := ois[r.Intn(len(ois))]
				pre := "--" + oi.LongFull
				if oi.LongFull == "" || (oi.O.Short != "" && r.Bool()) {
					pre = "-" + oi.O.Short
				}
				out = append(out, pre+r.Pick([]string{"", "=", "=\"", "=\"x", "=-", "=--", "é", "=\xff", "= ", "=\"a\"b", "=5%d", "=%s%s", "=true", "=0"}))
				if r.Bool() {
					out = append(out, r.Pick(adversarialTokens))
				} else if r.Bool() {
					// what follows an option name may look like a negative number
					out = append(out, r.Pick([]string{"-.", "-.5", "-1", "-", "-1x", "-.e", "-0"}))
				}
			}
		case 6:
			// cluster of known and unknown short runes
			var b strings.Builder
			b.WriteString("-")
			for i := r.Range(1, 5); i > 0; i-- {
				if len(ois) > 0 && r.Bool() {
					if s := ois[r.Intn(len(ois))].O.Short; s != "" {
						b.WriteString(s)
						continue
					}
				}
				b.WriteString(r.Pick([]string{"é", "?", "=", "-", "\xfe", "世", "1", "\""}))
			}
			out = append(out, b.String())
		default:
			out = append(out, genArgvLoose(r, d, 1)...)
		}
	}
	if len(out) > n {
		out = out[:n]
	}
	return out
}
