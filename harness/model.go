package main

import (
	"fmt"
	"strings"
)

// The small executable reference model shared by C05 and C14: what value an
// option of a given kind holds after a list of source texts (command-line /
// INI syntax) has been applied to it, starting from empty. It uses the
// harness's own converter (plainToV) and is only ever asked about texts far
// from conversion boundaries.

// modelApply returns the value after applying texts in order, or an error if
// a text does not convert.
func modelApply(kind string, texts []string) (V, error) {
	switch {
	case isSliceKind(kind):
		out := V{}
		for _, t := range texts {
			e, err := plainToV(elemKind(kind), t)
			if err != nil {
				return V{}, err
			}
			out.L = append(out.L, e)
		}
		return out, nil
	case isMapKind(kind):
		out := V{}
		for _, t := range texts {
			parts := strings.SplitN(t, ":", 2)
			val := ""
			if len(parts) == 2 {
				val = parts[1]
			}
			k, err := plainToV(mapKeyKind(kind), parts[0])
			if err != nil {
				return V{}, err
			}
			e, err := plainToV(elemKind(kind), val)
			if err != nil {
				return V{}, err
			}
			replaced := false
			for i := range out.K {
				if dumpV(mapKeyKind(kind), out.K[i]) == dumpV(mapKeyKind(kind), k) {
					out.L[i] = e
					replaced = true
				}
			}
			if !replaced {
				out.K = append(out.K, k)
				out.L = append(out.L, e)
			}
		}
		return out, nil
	case isPtrKind(kind):
		if len(texts) == 0 {
			return V{Nil: true}, nil
		}
		if e := elemKind(kind); isSliceKind(e) || isMapKind(e) {
			return modelApply(e, texts) // pointer to a slice or map: the pointee is built like a plain one
		}
		return plainToV(elemKind(kind), texts[len(texts)-1])
	case isFuncKind(kind):
		return V{}, fmt.Errorf("model: callbacks have no value")
	}
	if len(texts) == 0 {
		return V{}, fmt.Errorf("model: no text")
	}
	return plainToV(kind, texts[len(texts)-1])
}

// modelConvertible reports whether every text converts for kind.
func modelConvertible(kind string, texts []string) bool {
	_, err := modelApply(kind, texts)
	return err == nil
}
