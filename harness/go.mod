module simharness

go 1.23
