package main

import (
	"errors"
	"fmt"
	"reflect"
	"strconv"
	"strings"
	"time"

	flags "github.com/jessevdk/go-flags"
	"github.com/jessevdk/go-flags/simrt"
)

// ---- declaration spec: what the harness declares, and the oracles' only
// source of truth about it (the library's own model is never consulted to
// compute an expected value) ------------------------------------------------

type OptSpec struct {
	Field         string   `json:"field"`
	Kind          string   `json:"kind"`
	Short         string   `json:"short,omitempty"`
	Long          string   `json:"long,omitempty"`
	Default       []BStr   `json:"default,omitempty"`
	Env           string   `json:"env,omitempty"`
	EnvDelim      string   `json:"env_delim,omitempty"`
	Optional      bool     `json:"optional,omitempty"`
	OptionalValue []BStr   `json:"optional_value,omitempty"`
	Required      bool     `json:"required,omitempty"`
	Choices       []string `json:"choices,omitempty"`
	Hidden        bool     `json:"hidden,omitempty"`
	NoIni         bool     `json:"no_ini,omitempty"`
	IniName       string   `json:"ini_name,omitempty"`
	Base          int      `json:"base,omitempty"`
	Desc          string   `json:"desc,omitempty"`
	ValueName     string   `json:"value_name,omitempty"`
	DefaultMask   string   `json:"default_mask,omitempty"`
	NoUnquote     bool     `json:"no_unquote,omitempty"`
	Init          *V       `json:"init,omitempty"`
	DupTags       bool     `json:"dup_tags,omitempty"`    // single-valued tags given twice; the last one counts
	NoIniText     string   `json:"no_ini_text,omitempty"` // value of the no-ini tag (any non-empty value means no-ini)
}

type ArgSpec struct {
	Field    string `json:"field"`
	Name     string `json:"name,omitempty"`
	Kind     string `json:"kind"`
	Required string `json:"required,omitempty"`
	Desc     string `json:"desc,omitempty"`
}

type GroupSpec struct {
	Name         string `json:"name"`
	Long         string `json:"long,omitempty"`
	Namespace    string `json:"namespace,omitempty"`
	EnvNamespace string `json:"env_namespace,omitempty"`
	Hidden       bool   `json:"hidden,omitempty"`
	// CreatedAs (top-level groups): the group is added under this name and gets its
	// name proper right afterwards (Group.ShortDescription is a public field)
	CreatedAs   string       `json:"created_as,omitempty"`
	Opts        []*OptSpec   `json:"opts,omitempty"`
	Sub         []*GroupSpec `json:"sub,omitempty"`
	Pos         []*ArgSpec   `json:"pos,omitempty"`
	PosRequired bool         `json:"pos_required,omitempty"`
	// ViaPtr (nested groups): the field is a nil pointer to the group's struct,
	// which the library allocates when it reads the declaration.
	ViaPtr bool `json:"via_ptr,omitempty"`
	PtrSet bool `json:"ptr_set,omitempty"` // ... or a pointer the program has set to a struct of its own
}

type CmdSpec struct {
	Name        string       `json:"name"`
	Short       string       `json:"short,omitempty"`
	Long        string       `json:"long,omitempty"`
	Aliases     []string     `json:"aliases,omitempty"`
	Hidden      bool         `json:"hidden,omitempty"`
	SubOptional bool         `json:"sub_optional,omitempty"`
	Exec        bool         `json:"exec,omitempty"`
	Own         *GroupSpec   `json:"own,omitempty"`
	Groups      []*GroupSpec `json:"groups,omitempty"`
	Commands    []*CmdSpec   `json:"commands,omitempty"`
	// ViaTag: the command is declared by a `command:"..."` struct tag inside its
	// parent's struct (possible for non-executable commands whose parent is the
	// parser or another tag-declared command) instead of through AddCommand.
	ViaTag bool `json:"via_tag,omitempty"`
	// Namespace / EnvNamespace set on the command itself (they prefix the names
	// of every option below it).
	Namespace    string `json:"namespace,omitempty"`
	EnvNamespace string `json:"env_namespace,omitempty"`
	// Usage: the command's data implements flags.Usage with this text (executable commands).
	Usage string `json:"usage,omitempty"`
}

type DeclSpec struct {
	App            string       `json:"app"`
	Options        uint         `json:"options"`
	NSDelim        string       `json:"ns_delim,omitempty"`
	EnvNSDelim     string       `json:"env_ns_delim,omitempty"`
	UseNewParser   bool         `json:"use_new_parser,omitempty"`
	SubOptional    bool         `json:"sub_optional,omitempty"`
	Root           *GroupSpec   `json:"root,omitempty"`
	Groups         []*GroupSpec `json:"groups,omitempty"`
	Commands       []*CmdSpec   `json:"commands,omitempty"`
	UnknownHandler string       `json:"unknown_handler,omitempty"` // "", "drop", "keep", "fail"
	CmdHandler     string       `json:"cmd_handler,omitempty"`     // "", "log", "forward", "late-log" (none at first; the first option callback that runs installs a logging one)
	CompHandler    bool         `json:"comp_handler,omitempty"`
	Usage          string       `json:"usage,omitempty"`
	ShortDesc      string       `json:"short_desc,omitempty"`
	LongDesc       string       `json:"long_desc,omitempty"`
	Namespace      string       `json:"namespace,omitempty"`      // set on the parser itself
	EnvNamespace   string       `json:"env_namespace,omitempty"`  // set on the parser itself
	Reenter        bool         `json:"reenter,omitempty"`        // Execute / handler / callbacks call back into the parser (WriteHelp)
	NSDelimEmpty   bool         `json:"ns_delim_empty,omitempty"` // the namespace delimiter is set to the empty string
	// LateGroups: top-level groups (by name) that the program adds with AddGroup
	// only later, when the history reaches an "addgroup" operation.
	LateGroups []string `json:"late_groups,omitempty"`
}

// V is a kind-independent value: scalars as text, containers as lists.
type V struct {
	T   BStr `json:"t,omitempty"`
	L   []V  `json:"l,omitempty"`
	K   []V  `json:"k,omitempty"`
	Nil bool `json:"nil,omitempty"`
}

// ---- harness-defined option types ------------------------------------------

// UM implements Unmarshaler (pointer receiver) and Marshaler.
type UM struct{ V string }

func (u *UM) UnmarshalFlag(s string) error {
	if err := cur.callee("unmarshal", s, nil); err != nil {
		return err
	}
	if strings.HasPrefix(s, "bad") {
		return errors.New("um: bad value")
	}
	u.V = s
	return nil
}

func (u UM) MarshalFlag() (string, error) { return u.V, nil }

// US is a named string type that implements Unmarshaler (pointer receiver): a
// string that checks what it is given.
type US string

func (u *US) UnmarshalFlag(s string) error {
	if err := cur.callee("unmarshal", s, nil); err != nil {
		return err
	}
	if strings.HasPrefix(s, "bad") {
		return errors.New("us: bad value")
	}
	*u = US(s)
	return nil
}

// UList is a named slice type that unmarshals by accumulation.
type UList []string

func (l *UList) UnmarshalFlag(s string) error {
	if err := cur.callee("unmarshal", s, nil); err != nil {
		return err
	}
	*l = append(*l, s)
	return nil
}

// Level is a named integer type with a String method (and no MarshalFlag): it is
// written and read as a plain number.
type Level int

func (l Level) String() string {
	switch l {
	case 0:
		return "Debug"
	case 1:
		return "Info"
	case 2:
		return "Warning"
	}
	return fmt.Sprintf("Level(%d)", int(l))
}

// UPtr implements only Unmarshaler and keeps its state behind an unexported
// pointer (nothing of it is ever rendered).
type UPtr struct{ p *string }

func (u *UPtr) UnmarshalFlag(s string) error {
	if err := cur.callee("unmarshal", s, nil); err != nil {
		return err
	}
	u.p = &s
	return nil
}

// VV implements ValueValidator.
type VV string

func (v *VV) IsValidValue(s string) error {
	if err := cur.callee("validate", s, nil); err != nil {
		return err
	}
	if strings.HasPrefix(s, "!") {
		return errors.New("vv: invalid value " + s)
	}
	return nil
}

// CP implements Completer.
type CP string

var cpWords = []string{"alpha", "alpine", "beta", "gamma", "alp ha"}

func (c *CP) Complete(match string) []flags.Completion {
	if pe, ok := cur.callee("complete", match, nil).(panicErr); ok {
		panic(pe.Error() + " in a Completer")
	}
	var out []flags.Completion
	for _, w := range cpWords {
		if strings.HasPrefix(w, match) {
			out = append(out, flags.Completion{Item: w, Description: "word " + w})
		}
	}
	return out
}

// CmdNode is the data of an executable command.
type CmdNode struct {
	path string
}

func (c *CmdNode) Execute(args []string) error {
	return cur.callee("execute", c.path, args)
}

// UsageNode additionally implements flags.Usage.
type UsageNode struct {
	CmdNode
	usage string
}

func (u *UsageNode) Usage() string { return u.usage }

// ---- kinds ---------------------------------------------------------------

var scalarTypes = map[string]reflect.Type{
	"bool": reflect.TypeOf(false), "string": reflect.TypeOf(""),
	"int": reflect.TypeOf(int(0)), "int8": reflect.TypeOf(int8(0)), "int16": reflect.TypeOf(int16(0)), "int32": reflect.TypeOf(int32(0)), "int64": reflect.TypeOf(int64(0)),
	"uint": reflect.TypeOf(uint(0)), "uint8": reflect.TypeOf(uint8(0)), "uint16": reflect.TypeOf(uint16(0)), "uint32": reflect.TypeOf(uint32(0)), "uint64": reflect.TypeOf(uint64(0)),
	"float32": reflect.TypeOf(float32(0)), "float64": reflect.TypeOf(float64(0)),
	"duration": reflect.TypeOf(time.Duration(0)),
	"um":       reflect.TypeOf(UM{}), "vv": reflect.TypeOf(VV("")), "cp": reflect.TypeOf(CP("")), "us": reflect.TypeOf(US("")),
	"filename": reflect.TypeOf(flags.Filename("")),
	"ulist":    reflect.TypeOf(UList(nil)),
	"level":    reflect.TypeOf(Level(0)),
	"uptr":     reflect.TypeOf(UPtr{}),
}

var errorType = reflect.TypeOf((*error)(nil)).Elem()

func goType(kind string) reflect.Type {
	if t, ok := scalarTypes[kind]; ok {
		return t
	}
	switch {
	case strings.HasPrefix(kind, "[]"):
		return reflect.SliceOf(goType(kind[2:]))
	case strings.HasPrefix(kind, "*"):
		return reflect.PtrTo(goType(kind[1:]))
	case strings.HasPrefix(kind, "map["):
		i := strings.Index(kind, "]")
		return reflect.MapOf(goType(kind[4:i]), goType(kind[i+1:]))
	case strings.HasPrefix(kind, "func("):
		i := strings.Index(kind, ")")
		var in, out []reflect.Type
		if a := kind[5:i]; a != "" {
			in = append(in, goType(a))
		}
		if strings.TrimSpace(kind[i+1:]) == "error" {
			out = append(out, errorType)
		}
		return reflect.FuncOf(in, out, false)
	}
	panic("harness: unknown kind " + kind)
}

func isFuncKind(k string) bool  { return strings.HasPrefix(k, "func(") }
func isSliceKind(k string) bool { return strings.HasPrefix(k, "[]") || k == "ulist" }
func isMapKind(k string) bool   { return strings.HasPrefix(k, "map[") }
func isPtrKind(k string) bool   { return strings.HasPrefix(k, "*") }

// elemKind strips one container layer: []T → T, *T → T, map[K]V → V.
func elemKind(k string) string {
	switch {
	case k == "ulist":
		return "string"
	case isSliceKind(k):
		return k[2:]
	case isPtrKind(k):
		return k[1:]
	case isMapKind(k):
		return k[strings.Index(k, "]")+1:]
	}
	return k
}

func mapKeyKind(k string) string { return k[4:strings.Index(k, "]")] }

// baseKind strips all container layers.
func baseKind(k string) string {
	for {
		e := elemKind(k)
		if e == k {
			return k
		}
		k = e
	}
}

// isBoolFlag mirrors the documented rule: bool (also behind pointer/slice) and
// zero-argument callbacks take no argument.
func isBoolFlag(k string) bool {
	if isFuncKind(k) {
		return strings.HasPrefix(k, "func()")
	}
	if isMapKind(k) {
		return false
	}
	return baseKind(k) == "bool"
}

// ---- tags ---------------------------------------------------------------

func tagKV(b *strings.Builder, k, v string) {
	if b.Len() > 0 {
		b.WriteByte(' ')
	}
	b.WriteString(k)
	b.WriteByte(':')
	b.WriteString(strconv.Quote(v))
}

func optTag(o *OptSpec) reflect.StructTag {
	var b strings.Builder
	if o.DupTags && o.Long != "" {
		// earlier duplicates of single-valued tags: the last occurrence counts
		tagKV(&b, "long", "dup-"+o.Long)
		tagKV(&b, "description", "an earlier description")
		if o.ValueName != "" {
			tagKV(&b, "value-name", "DUP")
		}
	}
	if o.Short != "" {
		tagKV(&b, "short", o.Short)
	}
	if o.Long != "" {
		tagKV(&b, "long", o.Long)
	}
	if o.Desc != "" {
		tagKV(&b, "description", o.Desc)
	}
	for _, d := range o.Default {
		tagKV(&b, "default", string(d))
	}
	if o.Env != "" {
		tagKV(&b, "env", o.Env)
	}
	if o.EnvDelim != "" {
		tagKV(&b, "env-delim", o.EnvDelim)
	}
	if o.Optional {
		tagKV(&b, "optional", "yes")
	}
	for _, d := range o.OptionalValue {
		tagKV(&b, "optional-value", string(d))
	}
	if o.Required {
		tagKV(&b, "required", "yes")
	}
	for _, c := range o.Choices {
		tagKV(&b, "choice", c)
	}
	if o.Hidden {
		tagKV(&b, "hidden", "yes")
	}
	if o.NoIni {
		t := o.NoIniText
		if t == "" {
			t = "yes"
		}
		tagKV(&b, "no-ini", t)
	}
	if o.IniName != "" {
		tagKV(&b, "ini-name", o.IniName)
	}
	if o.Base != 0 {
		tagKV(&b, "base", strconv.Itoa(o.Base))
	}
	if o.ValueName != "" {
		tagKV(&b, "value-name", o.ValueName)
	}
	if o.DefaultMask != "" {
		tagKV(&b, "default-mask", o.DefaultMask)
	}
	if o.NoUnquote {
		tagKV(&b, "unquote", "false")
	}
	return reflect.StructTag(b.String())
}

func groupType(g *GroupSpec) reflect.Type {
	var fs []reflect.StructField
	for _, o := range g.Opts {
		fs = append(fs, reflect.StructField{Name: o.Field, Type: goType(o.Kind), Tag: optTag(o)})
	}
	for i, s := range g.Sub {
		var b strings.Builder
		tagKV(&b, "group", s.Name)
		if s.Long != "" {
			tagKV(&b, "description", s.Long)
		}
		if s.Namespace != "" {
			tagKV(&b, "namespace", s.Namespace)
		}
		if s.EnvNamespace != "" {
			tagKV(&b, "env-namespace", s.EnvNamespace)
		}
		if s.Hidden {
			tagKV(&b, "hidden", "yes")
		}
		st := groupType(s)
		if s.ViaPtr {
			st = reflect.PtrTo(st)
		}
		fs = append(fs, reflect.StructField{Name: fmt.Sprintf("Sub%d", i), Type: st, Tag: reflect.StructTag(b.String())})
	}
	if len(g.Pos) > 0 {
		var pf []reflect.StructField
		for _, a := range g.Pos {
			var b strings.Builder
			if a.Name != "" {
				tagKV(&b, "positional-arg-name", a.Name)
			}
			if a.Required != "" {
				tagKV(&b, "required", a.Required)
			}
			if a.Desc != "" {
				tagKV(&b, "description", a.Desc)
			}
			pf = append(pf, reflect.StructField{Name: a.Field, Type: goType(a.Kind), Tag: reflect.StructTag(b.String())})
		}
		var b strings.Builder
		tagKV(&b, "positional-args", "yes")
		if g.PosRequired {
			tagKV(&b, "required", "yes")
		}
		fs = append(fs, reflect.StructField{Name: "PosArgs", Type: reflect.StructOf(pf), Tag: reflect.StructTag(b.String())})
	}
	return reflect.StructOf(fs)
}

func tagCmds(cs []*CmdSpec) []*CmdSpec {
	var out []*CmdSpec
	for _, c := range cs {
		if c.ViaTag && !c.Exec {
			out = append(out, c)
		}
	}
	return out
}

// groupTypeEx is groupType plus one struct field per tag-declared subcommand.
func groupTypeEx(g *GroupSpec, cmds []*CmdSpec) reflect.Type {
	if g == nil {
		g = &GroupSpec{}
	}
	base := groupType(g)
	if len(cmds) == 0 {
		return base
	}
	var fs []reflect.StructField
	for i := 0; i < base.NumField(); i++ {
		fs = append(fs, base.Field(i))
	}
	for i, c := range cmds {
		var b strings.Builder
		tagKV(&b, "command", c.Name)
		if c.Short != "" {
			tagKV(&b, "description", c.Short)
		}
		if c.Long != "" {
			tagKV(&b, "long-description", c.Long)
		}
		for _, a := range c.Aliases {
			tagKV(&b, "alias", a)
		}
		if c.SubOptional {
			tagKV(&b, "subcommands-optional", "yes")
		}
		if c.Hidden {
			tagKV(&b, "hidden", "yes")
		}
		fs = append(fs, reflect.StructField{Name: fmt.Sprintf("TagCmd%d", i), Type: groupTypeEx(c.Own, tagCmds(c.Commands)), Tag: reflect.StructTag(b.String())})
	}
	return reflect.StructOf(fs)
}

// bindTagCmds binds the option fields of tag-declared commands nested in v.
func (b *Built) bindTagCmds(cmds []*CmdSpec, v reflect.Value, path []string, hidden bool) {
	for i, c := range cmds {
		p := append(append([]string{}, path...), c.Name)
		fv := v.FieldByName(fmt.Sprintf("TagCmd%d", i))
		h := hidden || c.Hidden
		if c.Own != nil {
			b.bindGroup(c.Own, fv, walkCtx{b: b, cmdPath: p, hidden: h, ownGroup: true}, "")
		}
		b.bindTagCmds(tagCmds(c.Commands), fv, p, h)
	}
}

// finishTagCmds looks the tag-declared commands up in the library's tree and adds
// what can only be added through the API (extra groups, API-declared children).
func (b *Built) finishTagCmds(parent *flags.Command, cmds []*CmdSpec, path []string, hidden bool) error {
	for _, c := range cmds {
		p := append(append([]string{}, path...), c.Name)
		fc := parent.Find(c.Name)
		if fc == nil {
			return fmt.Errorf("tag-declared command %q was not created by the library", strings.Join(p, "."))
		}
		b.Cmds = append(b.Cmds, &BuiltCmd{Path: p, Spec: c, Cmd: fc})
		fc.Namespace = c.Namespace
		fc.EnvNamespace = c.EnvNamespace
		h := hidden || c.Hidden
		for _, g := range c.Groups {
			rv := reflect.New(groupType(g))
			b.bindGroup(g, rv.Elem(), walkCtx{b: b, cmdPath: p, hidden: h}, g.Name)
			fg, err := fc.AddGroup(g.Name, g.Long, rv.Interface())
			if err != nil {
				return err
			}
			applyGroupAttrs(fg, g)
		}
		if err := b.finishTagCmds(fc, tagCmds(c.Commands), p, h); err != nil {
			return err
		}
		for _, sc := range c.Commands {
			if sc.ViaTag && !sc.Exec {
				continue
			}
			if err := b.addCmd(fc, sc, p, h); err != nil {
				return err
			}
		}
	}
	return nil
}

// ---- built declaration ----------------------------------------------------

type BuiltOpt struct {
	Path     string
	Spec     *OptSpec
	Val      reflect.Value
	Group    *GroupSpec
	CmdPath  []string
	LongFull string // long name with namespaces, computed from the spec
	EnvFull  string // env key with env-namespaces, computed from the spec
	Section  string // INI section addressing the option's group
	InHidden bool   // inside a hidden group or command
}

type BuiltArg struct {
	Path    string
	Spec    *ArgSpec
	Val     reflect.Value
	CmdPath []string
}

type BuiltCmd struct {
	Path []string
	Spec *CmdSpec
	Cmd  *flags.Command
}

func (b *Built) infos() map[string]optInfo {
	if b.infoByPath == nil {
		b.infoByPath = map[string]optInfo{}
		for _, oi := range optInfos(b.Spec) {
			b.infoByPath[oi.Path] = oi
		}
	}
	return b.infoByPath
}

type Built struct {
	infoByPath map[string]optInfo
	P          *flags.Parser
	Spec       *DeclSpec
	Opts       []*BuiltOpt
	Args       []*BuiltArg
	ByPath     map[string]*BuiltOpt
	Cmds       []*BuiltCmd
	Err        error // declaration rejected by the library
	KeptIni    *flags.IniParser
	lateAdds   []func() error
	ptrGroups  []func()
}

func nsDelim(d *DeclSpec) string {
	if d.NSDelimEmpty {
		return ""
	}
	if d.NSDelim != "" {
		return d.NSDelim
	}
	return "."
}

func envNSDelim(d *DeclSpec) string {
	if d.EnvNSDelim != "" {
		return d.EnvNSDelim
	}
	return "_"
}

type walkCtx struct {
	b        *Built
	cmdPath  []string
	ns, ens  []string
	hidden   bool
	ownGroup bool // the struct is the command's own data (section = command path)
}

// sharedInits: initial slice values shared by all parsers of the process.
var sharedInits = map[string]reflect.Value{}

func (b *Built) bindGroup(g *GroupSpec, v reflect.Value, c walkCtx, gpath string) {
	ns, ens := c.ns, c.ens
	if g.Namespace != "" {
		ns = append(append([]string{}, ns...), g.Namespace)
	}
	if g.EnvNamespace != "" {
		ens = append(append([]string{}, ens...), g.EnvNamespace)
	}
	hidden := c.hidden || g.Hidden
	section := strings.Join(c.cmdPath, ".")
	if !c.ownGroup {
		if section != "" && g.Name != "" {
			section += "."
		}
		section += g.Name
	}
	for _, o := range g.Opts {
		fv := v.FieldByName(o.Field)
		bo := &BuiltOpt{
			Path: strings.Join(c.cmdPath, ".") + "|" + gpath + "|" + o.Field, Spec: o, Val: fv, Group: g,
			CmdPath: c.cmdPath, Section: section, InHidden: hidden,
		}
		if oi, ok := b.infos()[bo.Path]; ok {
			bo.LongFull, bo.EnvFull = oi.LongFull, oi.EnvFull
		}
		if isFuncKind(o.Kind) {
			fv.Set(makeCallback(bo.Path, fv.Type()))
		} else if o.Init != nil {
			if isSliceKind(o.Kind) && !o.Init.Nil && len(o.Init.L) > 0 {
				// the program initialises the field from a package-level default slice:
				// every parser of the process starts from the very same backing array
				key := bo.Path + "\x00" + o.Kind + "\x00" + mustJSON(o.Init)
				sv, ok := sharedInits[key]
				if !ok || sv.Type() != fv.Type() {
					if len(sharedInits) > 2000 {
						sharedInits = map[string]reflect.Value{}
					}
					tmp := reflect.New(fv.Type()).Elem()
					setV(tmp, o.Kind, *o.Init)
					sv = tmp
					sharedInits[key] = sv
				}
				fv.Set(sv)
			} else {
				setV(fv, o.Kind, *o.Init)
			}
		}
		b.Opts = append(b.Opts, bo)
		b.ByPath[bo.Path] = bo
	}
	for i, s := range g.Sub {
		c2 := c
		c2.ns, c2.ens, c2.hidden, c2.ownGroup = ns, ens, hidden, false
		if s.ViaPtr && s.PtrSet {
			// the program has allocated (and filled in) the struct itself
			fv := v.FieldByName(fmt.Sprintf("Sub%d", i))
			if fv.IsNil() { // (not when this is the late binding of a group the library has allocated already)
				fv.Set(reflect.New(fv.Type().Elem()))
			}
			b.bindGroup(s, fv.Elem(), c2, gpath+"/"+s.Name)
			continue
		}
		if s.ViaPtr {
			// bound once the library has allocated the struct (see finishPtrGroups)
			s, fv, sub := s, v.FieldByName(fmt.Sprintf("Sub%d", i)), gpath+"/"+s.Name
			b.ptrGroups = append(b.ptrGroups, func() {
				if fv.Kind() == reflect.Ptr && !fv.IsNil() {
					b.bindGroup(s, fv.Elem(), c2, sub)
				}
			})
			continue
		}
		b.bindGroup(s, v.FieldByName(fmt.Sprintf("Sub%d", i)), c2, gpath+"/"+s.Name)
	}
	if len(g.Pos) > 0 {
		pv := v.FieldByName("PosArgs")
		for _, a := range g.Pos {
			b.Args = append(b.Args, &BuiltArg{Path: strings.Join(c.cmdPath, ".") + "|" + a.Field, Spec: a, Val: pv.FieldByName(a.Field), CmdPath: c.cmdPath})
		}
	}
}

func makeCallback(path string, t reflect.Type) reflect.Value {
	return reflect.MakeFunc(t, func(in []reflect.Value) []reflect.Value {
		arg := ""
		if len(in) > 0 {
			arg = dumpValue(in[0])
		}
		err := cur.callee("callback", path+"("+arg+")", nil)
		if t.NumOut() == 1 {
			ev := reflect.New(errorType).Elem()
			if err != nil {
				ev.Set(reflect.ValueOf(err))
			}
			return []reflect.Value{ev}
		}
		return nil
	})
}

// Build declares spec to a fresh parser. A declaration the library rejects
// yields Built.Err (the parser is still returned when there is one).
func Build(spec *DeclSpec) (b *Built) {
	b = &Built{Spec: spec, ByPath: map[string]*BuiltOpt{}}
	defer func() {
		if r := recover(); r != nil {
			if isSimPanic(r) {
				panic(r)
			}
			b.Err = fmt.Errorf("panic while declaring: %v", r)
		}
	}()
	opts := flags.Options(spec.Options)
	var p *flags.Parser
	var topTag []*CmdSpec
	if spec.Root != nil {
		topTag = tagCmds(spec.Commands)
	}
	if spec.UseNewParser && spec.Root != nil {
		rv := reflect.New(groupTypeEx(spec.Root, topTag))
		b.bindGroup(spec.Root, rv.Elem(), walkCtx{b: b}, spec.Root.Name)
		b.bindTagCmds(topTag, rv.Elem(), nil, false)
		p = flags.NewParser(rv.Interface(), opts)
		p.Name = spec.App
	} else {
		p = flags.NewNamedParser(spec.App, opts)
		if spec.Root != nil {
			rv := reflect.New(groupTypeEx(spec.Root, topTag))
			b.bindGroup(spec.Root, rv.Elem(), walkCtx{b: b}, spec.Root.Name)
			b.bindTagCmds(topTag, rv.Elem(), nil, false)
			g, err := p.AddGroup(spec.Root.Name, spec.Root.Long, rv.Interface())
			if err != nil {
				b.Err = err
				b.P = p
				return b
			}
			applyGroupAttrs(g, spec.Root)
		}
	}
	b.P = p
	if spec.NSDelim != "" {
		p.NamespaceDelimiter = spec.NSDelim
	}
	if spec.NSDelimEmpty {
		p.NamespaceDelimiter = ""
	}
	if spec.EnvNSDelim != "" {
		p.EnvNamespaceDelimiter = spec.EnvNSDelim
	}
	p.Namespace = spec.Namespace
	p.EnvNamespace = spec.EnvNamespace
	p.SubcommandsOptional = spec.SubOptional
	p.Usage = spec.Usage
	p.ShortDescription = spec.ShortDesc
	p.LongDescription = spec.LongDesc
	for _, g := range spec.Groups {
		g := g
		rv := reflect.New(groupType(g))
		b.bindGroup(g, rv.Elem(), walkCtx{b: b}, g.Name)
		add := func() error {
			name := g.Name
			if g.CreatedAs != "" {
				name = g.CreatedAs
			}
			fg, err := p.AddGroup(name, g.Long, rv.Interface())
			if err != nil {
				return err
			}
			fg.ShortDescription = g.Name
			applyGroupAttrs(fg, g)
			return nil
		}
		late := false
		for _, n := range spec.LateGroups {
			late = late || n == g.Name
		}
		if late {
			b.lateAdds = append(b.lateAdds, add)
			continue
		}
		if err := add(); err != nil {
			b.Err = err
			return b
		}
	}
	if err := b.finishTagCmds(p.Command, topTag, nil, false); err != nil {
		b.Err = err
		return b
	}
	for _, c := range spec.Commands {
		if c.ViaTag && !c.Exec && spec.Root != nil {
			continue
		}
		if err := b.addCmd(p.Command, c, nil, false); err != nil {
			b.Err = err
			return b
		}
	}
	switch spec.UnknownHandler {
	case "drop":
		p.UnknownOptionHandler = func(option string, arg flags.SplitArgument, args []string) ([]string, error) {
			v, has := arg.Value()
			if err := cur.callee("unknown", fmt.Sprintf("%s|%s|%v", option, v, has), args); err != nil {
				return nil, err
			}
			return args, nil
		}
	case "keep":
		p.UnknownOptionHandler = func(option string, arg flags.SplitArgument, args []string) ([]string, error) {
			v, has := arg.Value()
			if err := cur.callee("unknown", fmt.Sprintf("%s|%s|%v", option, v, has), args); err != nil {
				return nil, err
			}
			return append([]string{"kept:" + option}, args...), nil
		}
	case "expand":
		// the handler replaces the option by several words (an alias expansion)
		p.UnknownOptionHandler = func(option string, arg flags.SplitArgument, args []string) ([]string, error) {
			v, has := arg.Value()
			if err := cur.callee("unknown", fmt.Sprintf("%s|%s|%v", option, v, has), args); err != nil {
				return nil, err
			}
			return append([]string{"exp1:" + option, "exp2", "exp3", "exp4"}, args...), nil
		}
	case "fail":
		p.UnknownOptionHandler = func(option string, arg flags.SplitArgument, args []string) ([]string, error) {
			cur.callee("unknown", option, args)
			return nil, cur.newInjected("unknown-handler")
		}
	}
	switch spec.CmdHandler {
	case "":
		p.CommandHandler = nil // (a program may well say so explicitly)
	case "log":
		p.CommandHandler = func(cmd flags.Commander, args []string) error {
			return cur.callee("handler", commanderName(cmd), args)
		}
	case "forward":
		p.CommandHandler = func(cmd flags.Commander, args []string) error {
			if err := cur.callee("handler", commanderName(cmd), args); err != nil {
				return err
			}
			if cmd != nil {
				return cmd.Execute(args)
			}
			return nil
		}
	}
	if spec.CompHandler {
		p.CompletionHandler = func(items []flags.Completion) {
			for _, it := range items {
				cur.out.Completions = append(cur.out.Completions, BStr(it.Item+"\t"+it.Description))
			}
			cur.out.CompletionCalls++
			if spec.Reenter && cur.compDepth == 0 && len(cur.sc.ReenterArgv) > 0 {
				// the handler calls back into the parser while completion mode is on
				cur.compDepth++
				p.ParseArgs(strs(cur.sc.ReenterArgv))
				cur.compDepth--
			}
		}
	}
	// groups declared as nil pointers exist now: bind their fields
	for len(b.ptrGroups) > 0 {
		fs := b.ptrGroups
		b.ptrGroups = nil
		for _, f := range fs {
			f()
		}
	}
	// canonical ranks for pointer-keyed maps: declaration order
	b.registerPointers()
	return b
}

func commanderName(c flags.Commander) string {
	switch n := c.(type) {
	case nil:
		return "<nil>"
	case *CmdNode:
		return n.path
	case *UsageNode:
		return n.path
	}
	return fmt.Sprintf("%T", c)
}

func applyGroupAttrs(g *flags.Group, s *GroupSpec) {
	g.Namespace = s.Namespace
	g.EnvNamespace = s.EnvNamespace
	g.Hidden = s.Hidden
}

func (b *Built) addCmd(parent *flags.Command, c *CmdSpec, path []string, hidden bool) error {
	path = append(append([]string{}, path...), c.Name)
	hidden = hidden || c.Hidden
	var data interface{}
	var ownVal reflect.Value
	if c.Exec && c.Usage != "" {
		data = &UsageNode{CmdNode: CmdNode{path: strings.Join(path, ".")}, usage: c.Usage}
	} else if c.Exec {
		data = &CmdNode{path: strings.Join(path, ".")}
	} else {
		own := c.Own
		if own == nil {
			own = &GroupSpec{Name: c.Name}
		}
		ownVal = reflect.New(groupType(own))
		if c.Own != nil {
			b.bindGroup(c.Own, ownVal.Elem(), walkCtx{b: b, cmdPath: path, hidden: hidden, ownGroup: true}, "")
		}
		data = ownVal.Interface()
	}
	fc, err := parent.AddCommand(c.Name, c.Short, c.Long, data)
	if err != nil {
		return err
	}
	fc.Aliases = append([]string(nil), c.Aliases...) // (a copy: the parser's list is the program's to edit)
	fc.Hidden = c.Hidden
	fc.SubcommandsOptional = c.SubOptional
	fc.Namespace = c.Namespace
	fc.EnvNamespace = c.EnvNamespace
	b.Cmds = append(b.Cmds, &BuiltCmd{Path: path, Spec: c, Cmd: fc})
	groups := c.Groups
	if c.Exec && c.Own != nil {
		groups = append([]*GroupSpec{c.Own}, groups...)
	}
	for _, g := range groups {
		rv := reflect.New(groupType(g))
		b.bindGroup(g, rv.Elem(), walkCtx{b: b, cmdPath: path, hidden: hidden}, g.Name)
		fg, err := fc.AddGroup(g.Name, g.Long, rv.Interface())
		if err != nil {
			return err
		}
		applyGroupAttrs(fg, g)
	}
	for _, sc := range c.Commands {
		if err := b.addCmd(fc, sc, path, hidden); err != nil {
			return err
		}
	}
	return nil
}

func (b *Built) registerPointers() {
	var walkG func(g *flags.Group)
	walkG = func(g *flags.Group) {
		simrt.RegisterPtr(g)
		for _, o := range g.Options() {
			simrt.RegisterPtr(o)
		}
		for _, s := range g.Groups() {
			walkG(s)
		}
	}
	var walkC func(c *flags.Command)
	walkC = func(c *flags.Command) {
		simrt.RegisterPtr(c)
		walkG(c.Group)
		for _, s := range c.Commands() {
			walkC(s)
		}
	}
	walkC(b.P.Command)
}

// allCmds lists command specs depth-first with their paths.
func (d *DeclSpec) allCmds() (out []struct {
	Path []string
	C    *CmdSpec
}) {
	var rec func(cs []*CmdSpec, path []string)
	rec = func(cs []*CmdSpec, path []string) {
		for _, c := range cs {
			p := append(append([]string{}, path...), c.Name)
			out = append(out, struct {
				Path []string
				C    *CmdSpec
			}{p, c})
			rec(c.Commands, p)
		}
	}
	rec(d.Commands, nil)
	return
}
