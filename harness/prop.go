package main

import (
	"sort"
)

// Verdict is one judged scenario.
type Verdict struct {
	OK         bool
	Class      string // violation class: stays fixed while shrinking
	Msg        string
	Detail     map[string]interface{}
	Sig        string // scenario signature (distinct counting)
	NonTrivial bool
	Evals      int               // executions performed for this verdict
	Stats      map[string]int    // fault / reach counters accumulated over the executions
	NotJudged  string            // reason the main oracle was not applied ("" = applied)
	Trouble    string            // harness trouble (exit 2), never a violation
	KnownHits  map[string]string // known finding id → message of the first atomic failure it covered
}

// failAttr reports one atomic failure described by attrs. If a listed known
// finding covers exactly this failure (matcher over class and attrs) it is
// recorded as a known hit and does not fail the verdict; any other failure in
// the same scenario still does, so a known finding never masks a new one.
func (v *Verdict) failAttr(prop, class, msg string, attrs map[string]string) *Verdict {
	if id := knownGlobal.matchAttrs(prop, class, attrs); id != "" {
		if v.KnownHits == nil {
			v.KnownHits = map[string]string{}
		}
		if _, ok := v.KnownHits[id]; !ok {
			v.KnownHits[id] = msg
		}
		return v
	}
	return v.fail(class, msg)
}

func (v *Verdict) addStats(m map[string]int) {
	if v.Stats == nil {
		v.Stats = map[string]int{}
	}
	for k, n := range m {
		v.Stats[k] += n
	}
}

func (v *Verdict) stat(k string) {
	if v.Stats == nil {
		v.Stats = map[string]int{}
	}
	v.Stats[k]++
}

func (v *Verdict) fail(class, msg string) *Verdict {
	if v.OK {
		v.OK = false
		v.Class = class
		v.Msg = msg
	}
	return v
}

func harnessTrouble(v *Verdict, msg string) *Verdict {
	v.Trouble = msg
	return v
}

// Property is one claimed property: a scenario generator and a judge.
type Property interface {
	ID() string
	Gen(r *Rng, idx int, tier string) *Scenario
	Judge(sc *Scenario) *Verdict
	// Reductions proposes property-specific shrinking steps for sc; each
	// mutates its argument (a private copy) and reports whether it applied.
	Reductions(sc *Scenario) []func(*Scenario) bool
}

var properties = map[string]Property{}

func register(p Property) { properties[p.ID()] = p }

func propertyIDs() []string {
	var ids []string
	for id := range properties {
		ids = append(ids, id)
	}
	sort.Strings(ids)
	return ids
}

func init() {
	register(propC15{})
	register(propC14{})
	register(propC12{})
	register(propC09{})
	register(propC04{})
	register(propC05{})
}
