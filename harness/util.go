package main

import (
	"encoding/hex"
	"encoding/json"
	"fmt"
	"hash/fnv"
	"sort"
	"strconv"
	"unicode/utf8"
)

// ---- PRNG: one integer decides everything ---------------------------------

// Rng is splitmix64. Every choice of a run derives from VERIF_SEED through
// forks of this generator; logging never draws from it.
type Rng struct{ s uint64 }

func mix64(x uint64) uint64 {
	x += 0x9e3779b97f4a7c15
	z := x
	z = (z ^ (z >> 30)) * 0xbf58476d1ce4e5b9
	z = (z ^ (z >> 27)) * 0x94d049bb133111eb
	return z ^ (z >> 31)
}

func NewRng(seed uint64) *Rng { return &Rng{s: mix64(seed ^ 0x5bf03635f0935ad1)} }

func (r *Rng) U64() uint64 {
	r.s += 0x9e3779b97f4a7c15
	z := r.s
	z = (z ^ (z >> 30)) * 0xbf58476d1ce4e5b9
	z = (z ^ (z >> 27)) * 0x94d049bb133111eb
	return z ^ (z >> 31)
}

// Fork derives an independent sub-stream so that shrinking or changing one
// dimension of generation does not reshuffle the others.
func (r *Rng) Fork(label string) *Rng {
	h := fnv.New64a()
	h.Write([]byte(label))
	return NewRng(r.s ^ h.Sum64())
}

func (r *Rng) Intn(n int) int {
	if n <= 0 {
		return 0
	}
	return int(r.U64() % uint64(n))
}

// Range returns an int in [lo, hi].
func (r *Rng) Range(lo, hi int) int {
	if hi <= lo {
		return lo
	}
	return lo + r.Intn(hi-lo+1)
}

func (r *Rng) Bool() bool { return r.U64()&1 == 1 }

// Chance is true with probability num/den.
func (r *Rng) Chance(num, den int) bool { return r.Intn(den) < num }

func (r *Rng) Pick(xs []string) string {
	if len(xs) == 0 {
		return ""
	}
	return xs[r.Intn(len(xs))]
}

func (r *Rng) Perm(n int) []int {
	p := make([]int, n)
	for i := range p {
		p[i] = i
	}
	for i := n - 1; i > 0; i-- {
		j := r.Intn(i + 1)
		p[i], p[j] = p[j], p[i]
	}
	return p
}

// ---- BStr: byte strings that survive JSON ---------------------------------

// BStr is an arbitrary byte string. JSON cannot carry invalid UTF-8, so such
// strings are written as {"hex": "..."}.
type BStr string

func (b BStr) MarshalJSON() ([]byte, error) {
	s := string(b)
	if utf8.ValidString(s) {
		ok := true
		for _, r := range s {
			if r == utf8.RuneError || r == 0x2028 || r == 0x2029 {
				ok = false
				break
			}
		}
		if ok {
			return json.Marshal(s)
		}
	}
	return json.Marshal(map[string]string{"hex": hex.EncodeToString([]byte(s))})
}

func (b *BStr) UnmarshalJSON(data []byte) error {
	var s string
	if err := json.Unmarshal(data, &s); err == nil {
		*b = BStr(s)
		return nil
	}
	var m map[string]string
	if err := json.Unmarshal(data, &m); err != nil {
		return err
	}
	raw, err := hex.DecodeString(m["hex"])
	if err != nil {
		return err
	}
	*b = BStr(raw)
	return nil
}

func bstrs(xs []string) []BStr {
	out := make([]BStr, len(xs))
	for i, x := range xs {
		out[i] = BStr(x)
	}
	return out
}

func strs(xs []BStr) []string {
	out := make([]string, len(xs))
	for i, x := range xs {
		out[i] = string(x)
	}
	return out
}

// ---- misc ---------------------------------------------------------------

func sortedKeys[V any](m map[string]V) []string {
	ks := make([]string, 0, len(m))
	for k := range m {
		ks = append(ks, k)
	}
	sort.Strings(ks)
	return ks
}

func hashStr(s string) uint64 {
	h := fnv.New64a()
	h.Write([]byte(s))
	return h.Sum64()
}

func clip(s string, n int) string {
	if len(s) <= n {
		return s
	}
	return s[:n] + fmt.Sprintf("…(+%d bytes)", len(s)-n)
}

func q(s string) string { return strconv.Quote(s) }

func mustJSON(v interface{}) string {
	b, err := json.Marshal(v)
	if err != nil {
		return "<json error: " + err.Error() + ">"
	}
	return string(b)
}

func cloneJSON[T any](v *T) *T {
	b, err := json.Marshal(v)
	if err != nil {
		panic(err)
	}
	out := new(T)
	if err := json.Unmarshal(b, out); err != nil {
		panic(err)
	}
	return out
}
