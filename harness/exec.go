package main

import (
	"fmt"
	"os"
	"reflect"
	"runtime"
	"sort"
	"strings"
	"time"

	flags "github.com/jessevdk/go-flags"
	"github.com/jessevdk/go-flags/simrt"
)

// ---- scenario: the fully materialised description of one simulated run -----
// (this JSON is the replay file)

type WorldSpec struct {
	Env   map[string]BStr `json:"env,omitempty"`
	Cols  int             `json:"cols"`
	Now   int64           `json:"now"`
	Args  []string        `json:"args,omitempty"`
	Files map[string]BStr `json:"files,omitempty"`
	// StreamFiles: the files are not regular files (pipes, devices): Stat reports size 0
	StreamFiles bool `json:"stream_files,omitempty"`
	// UnsetAfterBuild: variables that are in the environment while the parser is
	// constructed and gone (unset by the program) before its first use.
	UnsetAfterBuild []string `json:"unset_after_build,omitempty"`
}

type Op struct {
	Kind string `json:"kind"` // store setenv unsetenv iniread parse iniwrite help man reboot

	// store
	Path      string `json:"path,omitempty"`
	Val       *V     `json:"val,omitempty"`
	ShareWith string `json:"share_with,omitempty"` // store: this other option's field gets the very same slice (shared backing array)

	// setenv / unsetenv
	Key  string `json:"key,omitempty"`
	Text BStr   `json:"text,omitempty"`

	// iniread
	AsDefaults bool             `json:"as_defaults,omitempty"`
	File       string           `json:"file,omitempty"` // "" = io.Reader argument
	Data       BStr             `json:"data,omitempty"`
	Chunks     []simrt.ReadStep `json:"chunks,omitempty"`
	Rest       int              `json:"rest,omitempty"`
	OpenErr    string           `json:"open_err,omitempty"`
	SrcBack    int              `json:"src_back,omitempty"` // reader path: take the bytes written by the op this many steps back
	UseKept    bool             `json:"use_kept,omitempty"` // use the IniParser created by an earlier "newini" op
	FailAt     int              `json:"fail_at,omitempty"`  // the input stream fails after exactly this many bytes
	FailErr    string           `json:"fail_err,omitempty"`
	FailWith   bool             `json:"fail_with,omitempty"` // ... together with the last delivered bytes
	Sibling    bool             `json:"sibling,omitempty"`   // decoy: the other parser is built from the scenario's own declarations, and the program then edits ITS options' public slices
	Rewrite    bool             `json:"rewrite,omitempty"`   // file read: the file gets the content Data first

	// parse
	Argv      []BStr             `json:"argv,omitempty"`
	Fd1Faults []simrt.WriteFault `json:"fd1_faults,omitempty"`
	Fd2Faults []simrt.WriteFault `json:"fd2_faults,omitempty"`

	// iniwrite / help / man (writer argument or file)
	IniOpts    uint               `json:"ini_opts,omitempty"`
	WFaults    []simrt.WriteFault `json:"w_faults,omitempty"`
	CrashAfter int                `json:"crash_after,omitempty"` // iniwrite to file: bytes until the process dies; 0 = never

	// tick budget override (0 = default)
	Budget int64 `json:"budget,omitempty"`
}

type CalleeFault struct {
	Kind string `json:"kind"` // callback unmarshal validate execute handler unknown
	Nth  int    `json:"nth"`  // 0-based index among calls of this kind within one boot
	ID   int    `json:"id"`
	// Form of the error value the callee returns: "" = a plain harness error;
	// "flags:<type>" = a *flags.Error of that type; "wrap:<type>" = an error
	// wrapping such a *flags.Error with %w.
	Form string `json:"form,omitempty"`
}

type Scenario struct {
	Prop   string            `json:"prop"`
	Family string            `json:"family,omitempty"`
	Seed   uint64            `json:"seed"`
	Index  int               `json:"index"`
	Decl   *DeclSpec         `json:"decl"`
	World  WorldSpec         `json:"world"`
	Ops    []Op              `json:"ops"`
	Callee []CalleeFault     `json:"callee_faults,omitempty"`
	Sched  *simrt.Schedule   `json:"sched,omitempty"`
	Scheds []*simrt.Schedule `json:"scheds,omitempty"` // C15: the schedules compared
	Aux    map[string]string `json:"aux,omitempty"`    // property-specific expectations recorded by the generator
	Note   string            `json:"note,omitempty"`
	C14    *C14Payload       `json:"c14,omitempty"`
	C12    *C12Payload       `json:"c12,omitempty"`
	C09    *C09Payload       `json:"c09,omitempty"`
	C04    *C04Payload       `json:"c04,omitempty"`
	C05    *C05Payload       `json:"c05,omitempty"`
	// CfgIni: the callback of the option whose field is FLoadConfig (a "--config
	// FILE" option) reads this INI text as defaults into the parser, while
	// ParseArgs is still at work.
	CfgIni *BStr `json:"cfg_ini,omitempty"`

	// ReenterArgv: a CompletionHandler of a re-entering program (Decl.Reenter) hands
	// this command line to ParseArgs from inside the handler (GO_FLAGS_COMPLETION
	// is still set then).
	ReenterArgv []BStr `json:"reenter_argv,omitempty"`

	// argvShare (not part of a replay file; set by a twin evaluation): the argument
	// slices handed to ParseArgs are built once per operation and handed out again
	// by later executions of the same scenario value, as a program that evaluates
	// one argument vector twice would.
	argvShare map[*Op][]string
}

// ---- outcome ---------------------------------------------------------------

type Call struct {
	Kind string `json:"kind"`
	Who  BStr   `json:"who"`
	Args []BStr `json:"args,omitempty"`
	Fail int    `json:"fail,omitempty"` // injected error id returned (0 = none)
}

type OpResult struct {
	Op           string   `json:"op"`
	Skipped      bool     `json:"skipped,omitempty"`
	Err          string   `json:"err,omitempty"`      // "" nil | "flags.Error" | "flags.IniError" | Go type
	ErrType      string   `json:"err_type,omitempty"` // flags.ErrorType name
	Msg          BStr     `json:"msg,omitempty"`
	Text         BStr     `json:"text,omitempty"` // err.Error()
	Line         uint     `json:"line,omitempty"`
	ErrFile      string   `json:"err_file,omitempty"`
	Injected     int      `json:"injected,omitempty"`     // id when the returned error IS an injected error value
	InjectedIDs  []int    `json:"injected_ids,omitempty"` // all injected errors the returned value is identical to
	Rest         []BStr   `json:"rest,omitempty"`
	Out          BStr     `json:"out,omitempty"`
	OutCalls     int      `json:"out_calls,omitempty"`
	Panic        string   `json:"panic,omitempty"`
	Exit         bool     `json:"exit,omitempty"`
	ExitCode     int      `json:"exit_code,omitempty"`
	Budget       bool     `json:"budget,omitempty"`
	Hang         string   `json:"hang,omitempty"`
	Inconclusive bool     `json:"inconclusive,omitempty"`
	Aliased      string   `json:"aliased,omitempty"`
	Crash        bool     `json:"crash,omitempty"`
	Fd1          BStr     `json:"fd1,omitempty"`
	Fd2          BStr     `json:"fd2,omitempty"`
	Calls        []Call   `json:"calls,omitempty"`
	Ticks        int64    `json:"ticks,omitempty"`
	Values       []string `json:"values,omitempty"`
	Active       string   `json:"active,omitempty"`
	ReaderErr    string   `json:"reader_err,omitempty"` // injected read error that fired
	ZeroReads    int      `json:"zero_reads,omitempty"`
	ReadCalls    int      `json:"read_calls,omitempty"`
	FaultsFired  int      `json:"faults_fired,omitempty"`
	Comp         []BStr   `json:"comp,omitempty"` // completion items handed to the CompletionHandler during this operation
}

type Outcome struct {
	DeclErr         string          `json:"decl_err,omitempty"`
	DeclHang        bool            `json:"decl_hang,omitempty"` // declaring the options (NewParser / AddGroup / AddCommand) did not return
	Ops             []OpResult      `json:"ops"`
	Completions     []BStr          `json:"completions,omitempty"`
	CompletionCalls int             `json:"completion_calls,omitempty"`
	Files           map[string]BStr `json:"files,omitempty"`
	TraceHash       uint64          `json:"trace_hash"`
	Trace           []string        `json:"-"`
	Stats           map[string]int  `json:"-"`
	Sched           [][]int         `json:"-"`
	SchedSites      []string        `json:"-"`
	HarnessPanic    string          `json:"harness_panic,omitempty"`
}

// ---- run context -----------------------------------------------------------

type InjectedErr struct{ ID int }

// sliceErr: an error of a slice type (comparing two of them with == panics).
type sliceErr []int

// panicErr: the callee fault plan's way of saying "panic instead of returning".
type panicErr struct{ id int }

func (e panicErr) Error() string { return fmt.Sprintf("injected panic #%d", e.id) }

func (e sliceErr) Error() string { return fmt.Sprintf("injected error #%d (of a slice type)", e[0]) }

func (e *InjectedErr) Error() string {
	if e == nil {
		return "injected typed-nil error"
	}
	return fmt.Sprintf("injected callee error #%d", e.ID)
}

// heldSlice remembers a slice the library handed to the program (arguments given
// to Execute / a handler, remaining arguments returned by ParseArgs) together
// with a copy taken at that moment: the program owns it from then on, so later
// calls on the parser must not change it.
type heldSlice struct {
	what string
	live []string
	snap []string
}

type RunCtx struct {
	inIniRead bool
	reentered int
	compDepth int
	nested    *Built // the parser a re-entering command uses for its own arguments
	held      []heldSlice
	bytesSeen int64 // bytes of input the boot has taken in so far (argv, INI text, stored values)
	b         *Built
	sc        *Scenario
	out       *Outcome
	calls     []Call
	counts    map[string]int
	errs      map[int]error
	nextID    int
}

var cur *RunCtx

var maxTicks = map[string]int64{}

// inconclusiveOps counts operations cut off by the wall-clock backstop without
// evidence of a stuck loop; a verdict that involved one is discarded.
var inconclusiveOps int

// opsExecuted counts operations actually run by Execute (evidence).
var opsExecuted int

// execHashes, when non-nil (determinism self-test), collects a hash of the
// complete outcome of every execution.
var execHashes *[]uint64

// recordRuns, when non-nil (replay mode), collects every execution a judge
// performs so that the replay can print the full event traces.
var obsHashOnly bool

var recordRuns *[]RunRecord

type RunRecord struct {
	Ops     []Op
	Outcome *Outcome
}

func (c *RunCtx) newInjected(what string) error {
	c.nextID--
	e := &InjectedErr{ID: c.nextID}
	c.errs[e.ID] = e
	return e
}

var flagsErrTypes = map[string]flags.ErrorType{"help": flags.ErrHelp, "required": flags.ErrRequired, "unknown": flags.ErrUnknown, "marshal": flags.ErrMarshal, "command required": flags.ErrCommandRequired}

func makeInjected(id int, form string) error {
	if form == "typed-nil" {
		// a non-nil error interface holding a nil pointer
		var e *InjectedErr
		return e
	}
	if form == "flags:help-empty" {
		return &flags.Error{Type: flags.ErrHelp}
	}
	if form == "errtype:help" {
		return flags.ErrHelp // a bare ErrorType value (it implements error)
	}
	if form == "errtype:required" {
		return flags.ErrRequired
	}
	if form == "uncomparable" {
		// an error whose dynamic type cannot be compared with == (a slice type)
		return sliceErr{id}
	}
	if form == "panic" {
		return panicErr{id} // the callee does not return at all: it panics
	}
	if form == "typed-nil-flags" {
		var e *flags.Error // a nil *flags.Error inside a non-nil error interface
		return e
	}
	parts := strings.SplitN(form, ":", 2)
	if len(parts) == 2 {
		fe := &flags.Error{Type: flagsErrTypes[parts[1]], Message: fmt.Sprintf("injected flags error #%d", id)}
		if parts[0] == "wrap" {
			return fmt.Errorf("command failed (#%d): %w", id, fe)
		}
		return fe
	}
	return &InjectedErr{ID: id}
}

// callee records one call out of the library into the embedding program and
// applies the callee fault plan.
func (c *RunCtx) callee(kind, who string, args []string) error {
	n := c.counts[kind]
	c.counts[kind] = n + 1
	call := Call{Kind: kind, Who: BStr(who), Args: bstrs(args)}
	if (kind == "execute" || kind == "handler") && len(args) > 0 {
		c.held = append(c.held, heldSlice{what: "the arguments passed to " + kind + " " + who, live: args, snap: append([]string{}, args...)})
	}
	var err error
	for _, f := range c.sc.Callee {
		if f.Kind == kind && (f.Nth == n || f.Nth < 0) { // (Nth < 0: every call of this kind fails, with the same error value)
			e, ok := c.errs[f.ID]
			if !ok {
				e = makeInjected(f.ID, f.Form)
				c.errs[f.ID] = e
			}
			call.Fail = f.ID
			err = e
			if simrt.W != nil {
				simrt.W.Stat("fault.callee." + kind)
			}
			break // the first plan entry for this call decides
		}
	}
	if simrt.W != nil {
		simrt.W.Event("callee %s %s fail=%d", kind, who, call.Fail)
	}
	if pe, ok := err.(panicErr); ok && kind != "complete" {
		// (the call is in the log already)
		c.calls = append(c.calls, call)
		panic(pe.Error() + " in " + kind + " " + who)
	}
	if kind == "callback" && c.sc.Decl != nil && c.sc.Decl.CmdHandler == "late-log" && c.b != nil && c.b.P != nil {
		// the --dry-run idiom: an option's callback installs the CommandHandler while
		// the line is being parsed; the handler in place at dispatch decides
		c.b.P.CommandHandler = func(cmd flags.Commander, args []string) error {
			return cur.callee("handler", commanderName(cmd), args)
		}
	}
	if kind == "callback" && c.sc.CfgIni != nil && strings.Contains(who, "|FLoadConfig(") && c.b != nil && c.b.P != nil && err == nil {
		// a --config option: the file is read as defaults right here
		if c.b.KeptIni == nil {
			c.b.KeptIni = flags.NewIniParser(c.b.P)
		}
		c.b.KeptIni.ParseAsDefaults = true
		if e := c.b.KeptIni.Parse(&simrt.Reader{Data: []byte(*c.sc.CfgIni)}); e != nil {
			err = e
		}
	}
	if kind == "execute" && c.sc.Decl != nil && c.sc.Decl.Reenter && len(args) > 0 {
		// a command that parses the arguments it was given with a parser of its own
		// (sudo-, exec-, help-like commands)
		if c.nested == nil {
			// (one per execution: a parser kept for the life of the process would make
			// the steps taken depend on which scenario came first)
			if db := Build(decoySpec()); db.P != nil && db.Err == nil {
				db.P.Options |= flags.IgnoreUnknown
				c.nested = db
			}
		}
		if c.nested != nil {
			c.nested.P.ParseArgs(args)
		}
	}
	// programs commonly call back into the parser from a command or callback
	// (print the help, look up an option)
	if c.sc.Decl != nil && c.sc.Decl.Reenter && c.b != nil && c.b.P != nil && (kind == "execute" || kind == "handler" || kind == "callback") {
		var sink simrt.Sink
		c.b.P.WriteHelp(&sink)
		c.b.P.FindOptionByLongName("help")
		if c.inIniRead && c.b.KeptIni != nil && c.reentered < 3 {
			// an include-style callback: read another document through the same IniParser
			c.reentered++
			c.b.KeptIni.Parse(&simrt.Reader{Data: []byte("; included\n")})
			c.reentered--
		}
	}
	c.calls = append(c.calls, call)
	return err
}

func isSimPanic(r interface{}) bool {
	switch r.(type) {
	case simrt.ExitPanic, simrt.BudgetPanic, simrt.CrashPanic, simrt.HangPanic:
		return true
	}
	return false
}

const defaultBudget = 20_000_000

// opBytes: how many bytes of input an operation brings into the boot.
func opBytes(op *Op) int64 {
	n := int64(len(op.Data)) + int64(len(op.Text)) + 1
	for _, a := range op.Argv {
		n += int64(len(a)) + 1
	}
	if op.Val != nil {
		n += vBytes(*op.Val)
	}
	return n
}

func vBytes(v V) int64 {
	n := int64(len(v.T)) + 1
	for _, x := range v.L {
		n += vBytes(x)
	}
	for _, x := range v.K {
		n += vBytes(x)
	}
	return n
}

// opBudget is the loop-step budget of one operation: generous for the real
// code (which is linear in the bytes it has been given, with a measured constant
// below 40 steps per byte and below 20 000 steps of fixed cost), small enough
// that a loop which stops advancing is cut off before its cost grows.
func opBudget(op *Op, bootBytes int64) int64 {
	if op.Budget > 0 {
		return op.Budget
	}
	return 400_000 + 400*bootBytes
}

// Execute runs the scenario under one schedule. It is a pure function of
// (scenario, schedule, code).
// ballast perturbs heap addresses from one execution to the next, so that output
// which leaks an address does not look stable merely because the allocator hands
// out the same spot again.
var (
	ballast   [][]byte
	execCount int
	keepAlive []*Built
)

func Execute(sc *Scenario, sched *simrt.Schedule) (out *Outcome) {
	execCount++
	if len(ballast) > 4096 {
		ballast = nil
	}
	ballast = append(ballast, make([]byte, 48+(execCount%13)*80))
	out = &Outcome{}
	ctx := &RunCtx{sc: sc, out: out, counts: map[string]int{}, errs: map[int]error{}}
	prev := cur
	cur = ctx
	w := simrt.NewWorld()
	defer func() {
		if r := recover(); r != nil {
			buf := make([]byte, 4096)
			buf = buf[:runtime.Stack(buf, false)]
			out.HarnessPanic = fmt.Sprintf("%v\n%s", r, buf)
		}
		out.TraceHash = w.Hash()
		out.Trace = w.Trace
		if recordRuns != nil {
			*recordRuns = append(*recordRuns, RunRecord{Ops: sc.Ops, Outcome: out})
		}
		if execHashes != nil {
			if obsHashOnly {
				// what the property calls observable, and nothing else (not the number of
				// steps taken, not the trace of seam events: cost is not for C15 to fix)
				*execHashes = append(*execHashes, hashStr(strings.Join(c15Observable(out), "\x00")))
			} else {
				*execHashes = append(*execHashes, hashStr(mustJSON(out))^out.TraceHash)
			}
		}
		out.Stats = w.Stats
		if w.Sched != nil {
			out.Sched = w.Sched.Applied
			out.SchedSites = w.Sched.Sites
		}
		simrt.Uninstall()
		cur = prev
	}()
	for k, v := range sc.World.Env {
		w.Env[k] = string(v)
	}
	w.Cols = sc.World.Cols
	if sc.World.Now != 0 {
		w.Now = sc.World.Now
	}
	if len(sc.World.Args) > 0 {
		w.Args = sc.World.Args
	}
	for n, d := range sc.World.Files {
		w.Disk.Nodes[n] = &simrt.Node{Data: []byte(d), IsDir: strings.HasSuffix(n, "/"), Stream: sc.World.StreamFiles}
	}
	if sched != nil {
		s := *sched
		s.Applied, s.Sites = nil, nil
		w.Sched = &s
	}
	simrt.Install(w)

	// declaring the options is library code too: it runs under a step budget
	// (the step budget only: a wall-clock backstop would make the verdict depend on
	// how loaded the machine is)
	w.Ticks, w.TickBudget = 0, 3000000
	w.WallDeadline = 0
	b := func() (b *Built) {
		defer func() {
			if r := recover(); r != nil {
				switch r.(type) {
				case simrt.BudgetPanic, simrt.HangPanic:
					if bp, ok := r.(simrt.BudgetPanic); ok && bp.Wall {
						panic(r) // cannot happen without a deadline; never a verdict
					}
					out.DeclHang = true
					b = &Built{Spec: sc.Decl, ByPath: map[string]*BuiltOpt{}, Err: fmt.Errorf("declaring the options did not return (step budget exhausted)")}
				default:
					panic(r)
				}
			}
		}()
		return Build(sc.Decl)
	}()
	for _, k := range sc.World.UnsetAfterBuild {
		delete(w.Env, k)
		w.Event("unsetenv %s (after construction)", k)
	}
	w.Ticks, w.TickBudget = 0, 1<<40
	w.WallDeadline = time.Now().Add(60 * time.Second).UnixNano()
	ctx.b = b
	// keep the last few hundred declarations reachable, as several live parsers in
	// one program would be: a fresh one then cannot sit at the address of the last
	if len(keepAlive) > 300 {
		keepAlive = nil
	}
	keepAlive = append(keepAlive, b)
	if b.Err != nil {
		out.DeclErr = b.Err.Error()
	}
	dead := false
	for i := range sc.Ops {
		op := &sc.Ops[i]
		res := OpResult{Op: op.Kind}
		if op.Kind == "reboot" {
			// the process ends; only the disk and the environment survive
			dead = false
			ctx.counts = map[string]int{}
			w.Exited = false
			w.Ticks, w.TickBudget = 0, 1<<40
			w.WallDeadline = time.Now().Add(60 * time.Second).UnixNano() // (the deadline of the previous operation is over)
			b = Build(sc.Decl)
			ctx.b = b
			if b.Err != nil {
				out.DeclErr = b.Err.Error()
			}
			w.Event("reboot")
			out.Ops = append(out.Ops, res)
			continue
		}
		if dead || b.P == nil {
			res.Skipped = true
			out.Ops = append(out.Ops, res)
			continue
		}
		ctx.calls = nil
		w.Fd1.Data, w.Fd2.Data = nil, nil
		w.Ticks = 0
		ctx.bytesSeen += opBytes(op)
		if op.Kind == "iniread" && op.File != "" {
			if node := w.Disk.Nodes[op.File]; node != nil {
				ctx.bytesSeen += int64(len(node.Data)) // input that arrives through the simulated disk
			}
		}
		w.TickBudget = opBudget(op, ctx.bytesSeen)
		w.WallDeadline = time.Now().Add(8 * time.Second).UnixNano()
		if op.Kind == "iniread" && op.SrcBack > 0 && len(out.Ops) >= op.SrcBack {
			cp := *op
			cp.Data = out.Ops[len(out.Ops)-op.SrcBack].Out
			op = &cp
		}
		runOp(w, b, op, &res)
		w.WallDeadline = 0 // (the harness's own walks over the parser below also tick)
		opsExecuted++
		for _, h := range ctx.held {
			for i := range h.snap {
				if i >= len(h.live) || h.live[i] != h.snap[i] {
					res.Aliased = fmt.Sprintf("%s were %q and have been changed to %q by a later call", h.what, h.snap, h.live)
					break
				}
			}
		}
		b.registerPointers() // groups added while parsing (built-in help) get their rank too
		res.Ticks = w.Ticks
		if os.Getenv("SIM_TICKSTATS") != "" {
			n := int64(len(op.Data)) + 1
			for _, a := range op.Argv {
				n += int64(len(a)) + 1
			}
			if w.Ticks > maxTicks[op.Kind] {
				maxTicks[op.Kind] = w.Ticks
				fmt.Fprintf(os.Stderr, "TICKS %s %d bytes=%d boot-bytes=%d\n", op.Kind, w.Ticks, n, ctx.bytesSeen)
			}
		}
		res.Fd1, res.Fd2 = BStr(w.Fd1.Data), BStr(w.Fd2.Data)
		res.Calls = ctx.calls
		res.Values = b.snapshot()
		res.Active = activeChain(b.P)
		if res.Exit || res.Crash {
			dead = true
		}
		out.Ops = append(out.Ops, res)
	}
	out.Files = map[string]BStr{}
	for n, node := range w.Disk.Nodes {
		out.Files[n] = BStr(node.Data)
	}
	return out
}

// decoySpec: a second, unrelated parser of the same program.
// editSibling changes, through the public fields, the value lists of every
// option and command of a parser (in place where there is an element, and by
// appending).
func editSibling(c *flags.Command) {
	var walkG func(g *flags.Group)
	walkG = func(g *flags.Group) {
		for _, o := range g.Options() {
			if len(o.Default) > 0 {
				o.Default[0] = "zz-sibling"
			}
			if len(o.Choices) > 0 {
				o.Choices[0] = "zz-sibling"
			}
			o.Default = append(o.Default, "zz-sibling-more")
			o.Choices = append(o.Choices, "zz-sibling-choice")
			o.OptionalValue = append(o.OptionalValue, "zz-sibling-optional")
			o.Description += " (sibling)"
		}
		for _, s := range g.Groups() {
			walkG(s)
		}
	}
	walkG(c.Group)
	if len(c.Aliases) > 0 {
		c.Aliases[0] = "zz-sibling"
	}
	c.Aliases = append(c.Aliases, "zz-sibling-alias")
	for _, s := range c.Commands() {
		editSibling(s)
	}
}

func decoySpec() *DeclSpec {
	return &DeclSpec{App: "decoy", Options: optHelpFlag | optPassDoubleDash,
		Root: &GroupSpec{Name: "Decoy Options", Opts: []*OptSpec{
			{Field: "FDecoyName", Kind: "string", Long: "decoy-name", Short: "N", Default: []BStr{"dd"}, Desc: "name of the decoy"},
			{Field: "FDecoyLevel", Kind: "int", Long: "decoy-level", Choices: []string{"1", "2", "3"}, Desc: "level of the decoy"},
			{Field: "FDecoyMap", Kind: "map[string]int", Long: "decoy-map", Default: []BStr{"a:1", "b:2"}, Desc: "decoy pairs"},
		}},
		Commands: []*CmdSpec{{Name: "decoycmd", Short: "a decoy command", Own: &GroupSpec{Name: "decoycmd", Opts: []*OptSpec{{Field: "FDecoyFlag", Kind: "bool", Long: "decoy-flag"}}}}},
	}
}

func activeChain(p *flags.Parser) string {
	var names []string
	for c := p.Command.Active; c != nil; c = c.Active {
		names = append(names, c.Name)
		if len(names) > 20 {
			break
		}
	}
	return strings.Join(names, ".")
}

// errText is err.Error(), except that an Error method which panics (a typed nil
// pointer, say) does not take the harness down with it.
func errText(err error) (s string) {
	defer func() {
		if r := recover(); r != nil {
			s = fmt.Sprintf("<Error() panicked: %v>", r)
		}
	}()
	return err.Error()
}

func classifyErr(err error, res *OpResult) {
	if err == nil {
		return
	}
	res.Text = BStr(errText(err))
	// is it, by identity, an error value a callee was made to return?
	if cur != nil {
		// (in id order: two typed-nil errors are equal as interface values, so several
		// ids may match; all of them are recorded)
		ids := make([]int, 0, len(cur.errs))
		for id := range cur.errs {
			ids = append(ids, id)
		}
		sort.Ints(ids)
		for _, id := range ids {
			if se, ok := err.(sliceErr); ok {
				// (not comparable with ==: identified by its content)
				if oe, ok := cur.errs[id].(sliceErr); ok && len(se) == 1 && len(oe) == 1 && se[0] == oe[0] {
					res.InjectedIDs = append(res.InjectedIDs, id)
				}
				continue
			}
			if _, ok := cur.errs[id].(sliceErr); ok {
				continue
			}
			if err == cur.errs[id] {
				res.InjectedIDs = append(res.InjectedIDs, id)
			}
		}
		if len(res.InjectedIDs) > 0 {
			res.Err = "injected"
			res.Injected = res.InjectedIDs[0]
			res.Msg = BStr(errText(err))
			if fe, ok := err.(*flags.Error); ok && fe != nil {
				res.ErrType = fe.Type.String()
			}
			return
		}
	}
	switch e := err.(type) {
	case *flags.Error:
		res.Err = "flags.Error"
		if e == nil {
			res.Err = "flags.Error(nil)"
			return
		}
		res.ErrType = e.Type.String()
		res.Msg = BStr(e.Message)
	case *flags.IniError:
		res.Err = "flags.IniError"
		res.Msg = BStr(e.Message)
		res.Line = e.LineNumber
		res.ErrFile = e.File
	case *InjectedErr:
		res.Err = "injected"
		res.Injected = e.ID
		res.Msg = BStr(e.Error())
	default:
		res.Err = reflect.TypeOf(err).String()
		res.Msg = BStr(errText(err))
	}
}

func runOp(w *simrt.World, b *Built, op *Op, res *OpResult) {
	defer func() {
		if r := recover(); r != nil {
			switch p := r.(type) {
			case simrt.ExitPanic:
				res.Exit = true
				res.ExitCode = p.Code
			case simrt.BudgetPanic:
				// The step budget is the criterion. The wall-clock backstop only counts
				// as a hang when the operation had by then also executed more steps than
				// any legitimate operation on that much input does (twice the measured
				// maxima); otherwise the operation was merely slow: inconclusive.
				if p.Wall && p.Ticks <= 40_000+40*cur.bytesSeen {
					res.Inconclusive = true
					inconclusiveOps++
					w.Stat("inconclusive.wall-clock")
				} else {
					res.Budget = true
				}
			case simrt.HangPanic:
				res.Budget = true
				res.Hang = p.Why
			case simrt.CrashPanic:
				res.Crash = true
			default:
				buf := make([]byte, 2048)
				buf = buf[:runtime.Stack(buf, false)]
				res.Panic = fmt.Sprintf("%v", r)
				w.Event("panic %v", r)
				_ = buf
			}
		}
	}()
	switch op.Kind {
	case "store":
		if o := b.ByPath[op.Path]; o != nil && op.Val != nil {
			setV(o.Val, o.Spec.Kind, *op.Val)
			if o2 := b.ByPath[op.ShareWith]; o2 != nil && o2.Val.Type() == o.Val.Type() {
				// the program initialises two options from one slice value
				o2.Val.Set(o.Val)
			}
		}
	case "setenv":
		w.Env[op.Key] = string(op.Text)
	case "unsetenv":
		delete(w.Env, op.Key)
	case "parse":
		w.Fd1.Faults, w.Fd2.Faults = op.Fd1Faults, op.Fd2Faults
		w.Fd1.Fired, w.Fd2.Fired = 0, 0
		w.Fd1.ResetCalls()
		w.Fd2.ResetCalls()
		argv := strs(op.Argv)
		if sh := cur.sc.argvShare; sh != nil {
			if a, ok := sh[op]; ok {
				argv = a
			} else {
				sh[op] = argv
			}
		}
		nComp := len(cur.out.Completions)
		defer func() {
			if n := len(cur.out.Completions); n > nComp {
				res.Comp = append([]BStr{}, cur.out.Completions[nComp:]...)
			}
		}()
		rest, err := b.P.ParseArgs(argv)
		classifyErr(err, res)
		res.Rest = bstrs(rest)
		if len(rest) > 0 {
			cur.held = append(cur.held, heldSlice{what: "the remaining arguments an earlier ParseArgs returned", live: rest, snap: append([]string{}, rest...)})
		}
		res.FaultsFired = w.Fd1.Fired + w.Fd2.Fired
		w.Fd1.Faults, w.Fd2.Faults = nil, nil
	case "decoy":
		// another parser of the same program is declared and used (its own help
		// requested, its own texts rendered): nothing of that may show in what the
		// scenario's parser produces
		saved, had := w.Env["GO_FLAGS_COMPLETION"]
		delete(w.Env, "GO_FLAGS_COMPLETION")
		if op.Sibling {
			// a second parser from the very same declarations; what the program does
			// to that one's options stays with that one
			sb := Build(cur.sc.Decl)
			if sb.P != nil && sb.Err == nil {
				editSibling(sb.P.Command)
			}
			if len(keepAlive) <= 300 {
				keepAlive = append(keepAlive, sb)
			}
			if had {
				w.Env["GO_FLAGS_COMPLETION"] = saved
			}
			break
		}
		db := Build(decoySpec())
		if db.P != nil && db.Err == nil {
			if len(op.Argv) > 0 {
				// the other parser meets the very words the scenario's parser is about to see
				db.P.ParseArgs(strs(op.Argv))
				for _, w := range strs(op.Argv) {
					if !strings.HasPrefix(w, "-") {
						db.P.ParseArgs([]string{w}) // ... and each plain word on its own (as a command name it does not know)
					}
				}
			}
			db.P.ParseArgs([]string{"--decoy-level", "3", "--help"})
			db.P.WriteHelp(&simrt.Sink{Name: "decoyhelp"})
			db.P.ParseArgs([]string{"--decoy-name=x", "decoycmd", "rest"})
		}
		if len(keepAlive) <= 300 {
			keepAlive = append(keepAlive, db)
		}
		if had {
			w.Env["GO_FLAGS_COMPLETION"] = saved
		}
	case "addgroup":
		// the program completes its declaration only now
		for _, add := range b.lateAdds {
			if err := add(); err != nil {
				classifyErr(err, res)
			}
		}
		b.lateAdds = nil
		b.registerPointers()
	case "newini":
		b.KeptIni = flags.NewIniParser(b.P)
	case "setopts":
		b.P.Options = flags.Options(op.IniOpts)
	case "setenvdelim":
		b.P.EnvNamespaceDelimiter = string(op.Text)
	case "iniread":
		// one IniParser per boot, as a program keeps it (state kept in it survives
		// from a read to a later write)
		if b.KeptIni == nil {
			b.KeptIni = flags.NewIniParser(b.P)
		}
		ip := b.KeptIni
		ip.ParseAsDefaults = op.AsDefaults
		cur.inIniRead = true
		defer func() { cur.inIniRead = false }()
		var err error
		if op.File == "" {
			rd := &simrt.Reader{Data: []byte(op.Data), Steps: op.Chunks, Rest: op.Rest, FailAt: op.FailAt, FailErr: op.FailErr, FailWith: op.FailWith}
			err = ip.Parse(rd)
			res.ReaderErr, res.ZeroReads, res.ReadCalls = rd.ErrFired, rd.ZeroReads, rd.Calls
		} else {
			if op.Rewrite {
				// the file has been rewritten since it was last looked at
				w.Disk.Nodes[op.File] = &simrt.Node{Data: []byte(op.Data), Stream: cur.sc.World.StreamFiles}
			}
			if op.OpenErr != "" {
				w.Disk.OpenErr[op.File] = op.OpenErr
			} else {
				delete(w.Disk.OpenErr, op.File)
			}
			w.Disk.ReadPlan[op.File] = op.Chunks
			w.Disk.ReadRest[op.File] = op.Rest
			delete(w.Disk.ReadFail, op.File)
			if op.FailAt > 0 {
				with := ""
				if op.FailWith {
					with = "with"
				}
				w.Disk.ReadFail[op.File] = [3]string{fmt.Sprint(op.FailAt), op.FailErr, with}
			}
			err = ip.ParseFile(op.File)
		}
		classifyErr(err, res)
	case "iniwrite":
		if b.KeptIni == nil {
			b.KeptIni = flags.NewIniParser(b.P)
		}
		ip := b.KeptIni
		if op.File == "" {
			sink := &simrt.Sink{Name: "iniwriter", Faults: op.WFaults}
			ip.Write(sink, flags.IniOptions(op.IniOpts))
			res.Out = BStr(sink.Data)
			res.OutCalls = sink.Calls()
			res.FaultsFired = sink.Fired
		} else {
			w.Disk.WritePlan[op.File] = op.WFaults
			dir := op.File[:strings.LastIndex(op.File, "/")+1]
			delete(w.Disk.OpenErr, op.File)
			if dir != "" {
				delete(w.Disk.OpenErr, dir)
			}
			if op.OpenErr != "" {
				// the file cannot be created (nor any other file next to it)
				w.Disk.OpenErr[op.File] = op.OpenErr
				if dir != "" && op.OpenErr != "EISDIR" {
					// (a name taken by a directory leaves its neighbours alone)
					w.Disk.OpenErr[dir] = op.OpenErr
				}
			}
			w.Disk.ArmCrash(op.CrashAfter) // bytes written to any file from now on; 0 = never
			err := ip.WriteFile(op.File, flags.IniOptions(op.IniOpts))
			w.Disk.ArmCrash(0)
			classifyErr(err, res)
		}
	case "help":
		sink := &simrt.Sink{Name: "helpwriter", Faults: op.WFaults}
		b.P.WriteHelp(sink)
		res.Out = BStr(sink.Data)
		res.FaultsFired = sink.Fired
	case "man":
		sink := &simrt.Sink{Name: "manwriter", Faults: op.WFaults}
		b.P.WriteManPage(sink)
		res.Out = BStr(sink.Data)
		res.FaultsFired = sink.Fired
	default:
		panic("harness: unknown op kind " + op.Kind)
	}
}
