package main

import (
	"fmt"
	"math"
	"reflect"
	"sort"
	"strconv"
	"strings"
	"time"
)

// setV stores v (kind-independent) into the addressable field fv of kind.
func setV(fv reflect.Value, kind string, v V) {
	switch {
	case isSliceKind(kind):
		if v.Nil {
			fv.Set(reflect.Zero(fv.Type()))
			return
		}
		s := reflect.MakeSlice(fv.Type(), len(v.L), len(v.L))
		for i := range v.L {
			setV(s.Index(i), elemKind(kind), v.L[i])
		}
		fv.Set(s)
	case isMapKind(kind):
		if v.Nil {
			fv.Set(reflect.Zero(fv.Type()))
			return
		}
		m := reflect.MakeMap(fv.Type())
		for i := range v.L {
			if i >= len(v.K) {
				break // a value that was generated for another kind (possible while shrinking): ignore the surplus
			}
			k := reflect.New(fv.Type().Key()).Elem()
			setV(k, mapKeyKind(kind), v.K[i])
			e := reflect.New(fv.Type().Elem()).Elem()
			setV(e, elemKind(kind), v.L[i])
			m.SetMapIndex(k, e)
		}
		fv.Set(m)
	case isPtrKind(kind):
		if v.Nil {
			fv.Set(reflect.Zero(fv.Type()))
			return
		}
		p := reflect.New(fv.Type().Elem())
		setV(p.Elem(), elemKind(kind), v)
		fv.Set(p)
	case isFuncKind(kind):
		// callbacks are set by the builder
	default:
		setScalar(fv, kind, string(v.T))
	}
}

// setScalar stores the canonical text t (harness syntax, not the library's).
func setScalar(fv reflect.Value, kind, t string) {
	switch kind {
	case "bool":
		fv.SetBool(t == "true")
	case "string", "vv", "cp", "filename", "us":
		fv.SetString(t)
	case "um":
		fv.Set(reflect.ValueOf(UM{V: t}))
	case "uptr":
		if t != "" {
			tt := t
			fv.Set(reflect.ValueOf(UPtr{p: &tt}))
		}
	case "int", "int8", "int16", "int32", "int64", "duration", "level":
		n, err := strconv.ParseInt(t, 10, 64)
		if err != nil && t != "" {
			panic("harness: bad int text " + t)
		}
		fv.SetInt(n)
	case "uint", "uint8", "uint16", "uint32", "uint64":
		n, err := strconv.ParseUint(t, 10, 64)
		if err != nil && t != "" {
			panic("harness: bad uint text " + t)
		}
		fv.SetUint(n)
	case "float32", "float64":
		fv.SetFloat(parseFloatText(t))
	default:
		panic("harness: setScalar kind " + kind)
	}
}

// float text: "bits:<hex of float64 bits>" or a plain decimal.
func parseFloatText(t string) float64 {
	if strings.HasPrefix(t, "bits:") {
		b, err := strconv.ParseUint(t[5:], 16, 64)
		if err != nil {
			panic("harness: bad float bits " + t)
		}
		return math.Float64frombits(b)
	}
	if t == "" {
		return 0
	}
	f, err := strconv.ParseFloat(t, 64)
	if err != nil {
		panic("harness: bad float text " + t)
	}
	return f
}

func floatText(f float64) string {
	return "bits:" + strconv.FormatUint(math.Float64bits(f), 16)
}

// dumpValue renders a Go value canonically: map keys sorted, floats by bit
// pattern, strings quoted, nil and empty containers alike (the library
// documents that nil slices/maps become empty), pointers by pointee.
func dumpValue(v reflect.Value) string {
	if !v.IsValid() {
		return "<invalid>"
	}
	switch v.Kind() {
	case reflect.Bool:
		return strconv.FormatBool(v.Bool())
	case reflect.String:
		return strconv.Quote(v.String())
	case reflect.Int, reflect.Int8, reflect.Int16, reflect.Int32, reflect.Int64:
		if v.Type() == reflect.TypeOf(time.Duration(0)) {
			return "dur:" + strconv.FormatInt(v.Int(), 10)
		}
		return strconv.FormatInt(v.Int(), 10)
	case reflect.Uint, reflect.Uint8, reflect.Uint16, reflect.Uint32, reflect.Uint64:
		return strconv.FormatUint(v.Uint(), 10)
	case reflect.Float32, reflect.Float64:
		f := v.Float()
		if f != f {
			return "NaN"
		}
		return fmt.Sprintf("f:%x(%v)", math.Float64bits(f), f)
	case reflect.Slice:
		parts := make([]string, v.Len())
		for i := range parts {
			parts[i] = dumpValue(v.Index(i))
		}
		return "[" + strings.Join(parts, ", ") + "]"
	case reflect.Map:
		parts := make([]string, 0, v.Len())
		it := v.MapRange()
		for it.Next() {
			parts = append(parts, dumpValue(it.Key())+": "+dumpValue(it.Value()))
		}
		sort.Strings(parts)
		return "{" + strings.Join(parts, ", ") + "}"
	case reflect.Ptr:
		if v.IsNil() {
			return "nil"
		}
		return "&" + dumpValue(v.Elem())
	case reflect.Struct:
		if u, ok := v.Interface().(UM); ok {
			return "UM(" + strconv.Quote(u.V) + ")"
		}
		if u, ok := v.Interface().(UPtr); ok {
			if u.p == nil {
				return "UPtr(nil)"
			}
			return "UPtr(" + strconv.Quote(*u.p) + ")"
		}
		return fmt.Sprintf("%#v", v.Interface())
	case reflect.Func:
		return "func"
	case reflect.Interface:
		if v.IsNil() {
			return "nil"
		}
		return dumpValue(v.Elem())
	}
	return fmt.Sprintf("%#v", v.Interface())
}

// snapshot dumps every option and positional field of a built declaration.
func (b *Built) snapshot() []string {
	out := make([]string, 0, len(b.Opts)+len(b.Args))
	for _, o := range b.Opts {
		if isFuncKind(o.Spec.Kind) {
			continue
		}
		out = append(out, o.Path+" = "+dumpValue(o.Val))
	}
	for _, a := range b.Args {
		out = append(out, "arg:"+a.Path+" = "+dumpValue(a.Val))
	}
	return out
}

// ---- value generators -----------------------------------------------------

var plainWords = []string{"a", "b", "xy", "foo", "bar", "baz", "qux", "k1", "k2", "k3", "val", "v2", "hello", "zeta", "m"}

// genPlainText gives a value text far from every conversion boundary, in the
// library's command-line syntax, for kind (scalars and container elements).
func genPlainText(r *Rng, kind string) string {
	switch baseKind(kind) {
	case "bool":
		return r.Pick([]string{"true", "false"})
	case "level":
		return strconv.Itoa(r.Range(0, 5))
	case "uptr":
		return "up" + r.Pick(plainWords)
	case "int", "int16", "int32", "int64":
		return strconv.Itoa(r.Range(-40, 120))
	case "int8":
		return strconv.Itoa(r.Range(-20, 100))
	case "uint", "uint16", "uint32", "uint64", "uint8":
		return strconv.Itoa(r.Range(0, 200))
	case "float32", "float64":
		return r.Pick([]string{"0.5", "1.25", "-2.5", "3", "100.125", "0"})
	case "duration":
		return r.Pick([]string{"1s", "2m0s", "1h30m0s", "250ms", "0s"})
	case "um", "us":
		return "um" + r.Pick(plainWords)
	default:
		return r.Pick(plainWords)
	}
}

// plainToV converts a plain command-line text (as produced by genPlainText)
// of scalar kind to the harness value syntax — the harness's own converter.
func plainToV(kind, text string) (V, error) {
	switch kind {
	case "bool":
		b, err := strconv.ParseBool(text)
		if text == "" {
			b, err = true, nil
		}
		if err != nil {
			return V{}, err
		}
		return V{T: BStr(strconv.FormatBool(b))}, nil
	case "uptr":
		return V{T: BStr(text)}, nil
	case "int", "int8", "int16", "int32", "int64", "level":
		bits := map[string]int{"int": 64, "int8": 8, "int16": 16, "int32": 32, "int64": 64, "level": 64}[kind]
		n, err := strconv.ParseInt(text, 10, bits)
		if err != nil {
			return V{}, err
		}
		return V{T: BStr(strconv.FormatInt(n, 10))}, nil
	case "uint", "uint8", "uint16", "uint32", "uint64":
		bits := map[string]int{"uint": 64, "uint8": 8, "uint16": 16, "uint32": 32, "uint64": 64}[kind]
		n, err := strconv.ParseUint(text, 10, bits)
		if err != nil {
			return V{}, err
		}
		return V{T: BStr(strconv.FormatUint(n, 10))}, nil
	case "float32":
		f, err := strconv.ParseFloat(text, 32)
		if err != nil {
			return V{}, err
		}
		return V{T: BStr(floatText(f))}, nil
	case "float64":
		f, err := strconv.ParseFloat(text, 64)
		if err != nil {
			return V{}, err
		}
		return V{T: BStr(floatText(f))}, nil
	case "duration":
		d, err := time.ParseDuration(text)
		if err != nil {
			return V{}, err
		}
		return V{T: BStr(strconv.FormatInt(int64(d), 10))}, nil
	case "um", "us":
		if strings.HasPrefix(text, "bad") {
			return V{}, fmt.Errorf("um: bad value")
		}
		return V{T: BStr(text)}, nil
	case "string", "vv", "cp", "filename":
		return V{T: BStr(text)}, nil
	}
	return V{}, fmt.Errorf("plainToV: kind %s", kind)
}

// dumpV renders a V of kind the same way dumpValue renders the Go value.
func dumpV(kind string, v V) string {
	fv := reflect.New(goType(kind)).Elem()
	setV(fv, kind, v)
	return dumpValue(fv)
}

// nastyStrings are string contents inside C12's quantifier.
func genNastyString(r *Rng) string {
	switch r.Intn(15) {
	case 14:
		// characters to which other formats give a meaning
		return r.Pick([]string{"it's", "pa$$w0rd", "$HOME/bin", "${USER}", "100%", "a$", "%s %d", "`x`", "$(id)", "~root", "a|b&c", "<tag>", "*?[x]", "$1", "%HOME%"})
	case 0:
		return ""
	case 1:
		return " " + r.Pick(plainWords)
	case 2:
		return r.Pick(plainWords) + " "
	case 3:
		return "\t" + r.Pick(plainWords) + " \t"
	case 4:
		return "\"" + r.Pick(plainWords)
	case 5:
		return "\"" + r.Pick(plainWords) + "\""
	case 6:
		return r.Pick(plainWords) + "\n" + r.Pick(plainWords)
	case 7:
		return r.Pick(plainWords) + "\x00\x01\x7f" + r.Pick(plainWords)
	case 8:
		return "héllo wörld ✓ " + r.Pick(plainWords)
	case 9:
		return "\xff\xfe" + r.Pick(plainWords) + "\xc3"
	case 10:
		return r.Pick([]string{"a=b", "a:b", "[x]", "; c", "# c", "a\\b", "a\\", "\\\"", "x;y", "'q'", "a\rb", "a\r", " ", " x", "x ", "\u3000y",
			"make -j4 # parallel", "issue #12", "a ; b", "a#b", "x\t; y", "http://10.0.0.1:8080/v1", "k:v:w", ":", "::", "a: b", "x = y ; z"})
	case 11:
		n := r.Pick([]string{"4090", "4095", "4096", "4097", "5000", "8192", "65530", "65536", "70000"})
		if r.Chance(1, 60) {
			n = r.Pick([]string{"1048570", "1048576", "1200000", "2100000"}) // beyond a megabyte, rarely (cost)
		}
		nn, _ := strconv.Atoi(n)
		return strings.Repeat(r.Pick([]string{"x", "ab", "é"}), nn)[:nn]
	case 12:
		return r.Pick(plainWords) + "  " + r.Pick(plainWords)
	default:
		return r.Pick(plainWords)
	}
}

func genStoreScalar(r *Rng, kind string, nasty bool) V {
	switch kind {
	case "bool":
		return V{T: BStr(strconv.FormatBool(r.Bool()))}
	case "string", "vv", "cp", "filename", "um", "us":
		if nasty {
			return V{T: BStr(genNastyString(r))}
		}
		return V{T: BStr(r.Pick(plainWords))}
	case "level":
		return V{T: BStr(strconv.Itoa(r.Range(0, 6)))}
	case "uptr":
		return V{T: BStr(r.Pick(plainWords))}
	case "int", "int64", "duration":
		return V{T: BStr(strconv.FormatInt(pickInt(r, 64), 10))}
	case "int8":
		return V{T: BStr(strconv.FormatInt(pickInt(r, 8), 10))}
	case "int16":
		return V{T: BStr(strconv.FormatInt(pickInt(r, 16), 10))}
	case "int32":
		return V{T: BStr(strconv.FormatInt(pickInt(r, 32), 10))}
	case "uint", "uint64":
		return V{T: BStr(strconv.FormatUint(pickUint(r, 64), 10))}
	case "uint8":
		return V{T: BStr(strconv.FormatUint(pickUint(r, 8), 10))}
	case "uint16":
		return V{T: BStr(strconv.FormatUint(pickUint(r, 16), 10))}
	case "uint32":
		return V{T: BStr(strconv.FormatUint(pickUint(r, 32), 10))}
	case "float32":
		fs := []float32{0, 1, -1, 0.1, 1.0 / 3, 3.4028235e38, 1e-45, 16777217, -2.5e-7}
		return V{T: BStr(floatText(float64(fs[r.Intn(len(fs))])))}
	case "float64":
		fs := []float64{0, 1, -1, 0.1, 1.0 / 3, 1.7976931348623157e308, 5e-324, 9007199254740993, -2.5e-7, 1e21, 123456.789}
		return V{T: BStr(floatText(fs[r.Intn(len(fs))]))}
	}
	panic("genStoreScalar kind " + kind)
}

func pickInt(r *Rng, bits int) int64 {
	max := int64(1)<<(uint(bits)-1) - 1
	switch r.Intn(6) {
	case 0:
		return max
	case 1:
		return -max - 1
	case 2:
		return 0
	case 3:
		return -1
	default:
		return int64(r.Range(-1000, 1000)) % (max + 1)
	}
}

func pickUint(r *Rng, bits int) uint64 {
	max := uint64(1)<<uint(bits) - 1
	switch r.Intn(5) {
	case 0:
		return max
	case 1:
		return 0
	default:
		v := uint64(r.Range(0, 2000))
		if max != ^uint64(0) {
			v %= max + 1
		}
		return v
	}
}

// genStoreValue generates a value to store in a field of kind.
func genStoreValue(r *Rng, kind string, nasty bool) V {
	switch {
	case isSliceKind(kind):
		n := r.Range(0, 3)
		v := V{}
		for i := 0; i < n; i++ {
			v.L = append(v.L, genStoreScalar(r, elemKind(kind), nasty))
		}
		if n == 0 && r.Bool() {
			v.Nil = true
		}
		return v
	case isMapKind(kind):
		n := r.Range(0, 3)
		v := V{}
		seen := map[string]bool{}
		for i := 0; i < n; i++ {
			k := genStoreScalar(r, mapKeyKind(kind), false)
			if mapKeyKind(kind) == "string" {
				k = V{T: BStr(r.Pick(plainWords))} // non-empty, no ':', no surrounding blanks
				if nasty && r.Chance(1, 3) {
					// still inside the property's quantifier: non-empty, free of ':' and of surrounding whitespace
					k = V{T: BStr(r.Pick([]string{"\"k", "\"k\"", "a\nb", "k=v", "#k", ";k", "[k]", "k k", "ключ", "k\x01", "k\\", "'k'", "k\tq", "\xffk", "k;#", "=k", "k="}))}
				}
			}
			if seen[string(k.T)] {
				continue
			}
			seen[string(k.T)] = true
			v.K = append(v.K, k)
			v.L = append(v.L, genStoreScalar(r, elemKind(kind), nasty))
		}
		if len(v.L) == 0 && r.Bool() {
			v.Nil = true
		}
		return v
	case isPtrKind(kind):
		if r.Chance(1, 4) {
			return V{Nil: true}
		}
		if e := elemKind(kind); isSliceKind(e) || isMapKind(e) {
			v := genStoreValue(r, e, nasty)
			v.Nil = false // (a pointer to a nil slice and a pointer to an empty one dump alike)
			return v
		}
		return genStoreScalar(r, elemKind(kind), nasty)
	}
	return genStoreScalar(r, kind, nasty)
}
