package main

import (
	"fmt"
	"strings"

	"github.com/jessevdk/go-flags/simrt"
)

// C04 — parsing is total, contained and typed. What the simulator owns here is
// the process boundary: fd 1/2, os.Exit, panics and the loop-step budget; the
// typed-rejection clause is decided with the injected-fault catalogue, where
// the cause of the rejection is known.

type C04Payload struct {
	Mode     string    `json:"mode"` // plan | adversarial
	Plan     *Plan     `json:"plan,omitempty"`
	Fault    *ArgFault `json:"fault,omitempty"`
	Argv     []BStr    `json:"argv,omitempty"`
	Argv0    []BStr    `json:"argv0,omitempty"` // adversarial mode: an earlier ParseArgs on the same parser
	HasFirst bool      `json:"has_first,omitempty"`
	// LateHelp: the parser is built and used once WITHOUT HelpFlag; the flag is
	// then switched on (Parser.Options is a public field) and the line with the
	// help request is parsed by the same parser.
	LateHelp bool `json:"late_help,omitempty"`
	// LatePrint: the parser is built, and rejects one command line, with the
	// PrintErrors bit the other way round; the bit gets its declared value
	// (Parser.Options is a public field) before the judged ParseArgs.
	LatePrint bool               `json:"late_print,omitempty"`
	Fd1Faults []simrt.WriteFault `json:"fd1_faults,omitempty"`
	Fd2Faults []simrt.WriteFault `json:"fd2_faults,omitempty"`
	EmptyComp bool               `json:"empty_completion_env,omitempty"` // GO_FLAGS_COMPLETION="" must behave like unset
	// Twice (plan mode, fault = a failing Execute / CommandHandler): the command
	// fails every time with the very same error value (a program's sentinel), and
	// the line is handed to the same parser twice; the second call is judged.
	Twice bool `json:"twice,omitempty"`
	// StaleComp: GO_FLAGS_COMPLETION is set while the parser is constructed and
	// unset before ParseArgs runs: an ordinary parse, outside completion mode.
	StaleComp bool `json:"stale_completion_env,omitempty"`
}

type propC04 struct{}

func (propC04) ID() string { return "C04" }

func c04Cfg(r *Rng) *DeclCfg {
	cfg := c09Cfg()
	cfg.Kinds = append(cfg.Kinds, "int8", "uint8", "float32", "map[int]string", "*string", "filename", "cp", "[]um", "map[string]bool")
	cfg.Descriptions = true
	cfg.MultiByte = true
	cfg.ShortOnly = true
	cfg.Init = true
	cfg.MaxSub = 2
	// every subset of the parser options
	cfg.ParserOpts = nil
	for m := uint(0); m < 32; m++ {
		cfg.ParserOpts = append(cfg.ParserOpts, m<<1)
	}
	return cfg
}

// oddify adds declaration shapes the library accepts but no test uses.
func oddify(r *Rng, d *DeclSpec) {
	if r.Fork("nsdelim").Chance(1, 12) {
		d.NSDelimEmpty = true // Parser.NamespaceDelimiter = "": namespaces and names run together
	}
	ownHelp := false
	for _, oi := range optInfos(d) {
		o := oi.O
		switch {
		case isBoolFlag(o.Kind) && !isFuncKind(o.Kind) && r.Chance(1, 12):
			o.Choices = []string{"red", "green"} // choices on a flag
		case isMapKind(o.Kind) && r.Chance(1, 10):
			o.Optional = true
			o.OptionalValue = []BStr{"ok:1"}
			if elemKind(o.Kind) == "string" {
				o.OptionalValue = []BStr{"ok:v"}
			}
			if mapKeyKind(o.Kind) == "int" {
				o.OptionalValue = []BStr{"1:v"}
			}
			if elemKind(o.Kind) == "bool" {
				o.OptionalValue = []BStr{"ok:true"}
			}
		case o.Kind == "string" && r.Chance(1, 15):
			o.NoUnquote = true
		case !isBoolFlag(o.Kind) && !isFuncKind(o.Kind) && r.Chance(1, 12):
			// an optional argument without an optional-value tag
			o.Optional, o.OptionalValue = true, nil
		case (o.Kind == "int" || o.Kind == "uint" || o.Kind == "int64" || o.Kind == "*int") && r.Chance(1, 6):
			// base tags the library accepts at declaration although they are useless
			o.Base = []int{1, 40, -3, 37}[r.Intn(4)]
			o.Default, o.OptionalValue, o.Optional = nil, nil, false
			if o.Init == nil {
				v := V{T: "7"}
				o.Init = &v
			}
		case r.Chance(1, 25):
			o.Desc = "ünïcödé désçrîptîön ✓ with a\nnewline and\ttab"
		case r.Chance(1, 25):
			o.Desc = "up to 100% of %d items (%s), see %[2]v" // a description is text, not a format
		case r.Chance(1, 30) && !isFuncKind(o.Kind) && !ownHelp:
			// the program's own -h / --help beside the built-in one (once per declaration)
			taken := false
			for _, x := range optInfos(d) {
				taken = taken || x.O.Long == "help" || x.O.Short == "h"
			}
			if !taken {
				ownHelp = true
				if r.Bool() {
					o.Long = "help"
				} else {
					o.Short = "h"
				}
				d.Options |= optHelpFlag
			}
		case r.Chance(1, 25) && o.Long != "":
			o.ValueName = "VÄLUE"
		}
	}
}

func (propC04) Gen(r *Rng, idx int, tier string) *Scenario {
	sc := &Scenario{Prop: "C04", C04: &C04Payload{}}
	dr := r.Fork("decl")
	sc.Decl = genDecl(dr, c04Cfg(dr))
	hr := r.Fork("handlers")
	switch hr.Intn(5) {
	case 0:
		sc.Decl.CmdHandler = "log"
	case 1:
		sc.Decl.CmdHandler = "forward"
	}
	switch hr.Intn(8) {
	case 0:
		sc.Decl.UnknownHandler = "drop"
	case 1:
		sc.Decl.UnknownHandler = "keep"
	case 2:
		sc.Decl.UnknownHandler = "fail"
	case 3:
		sc.Decl.UnknownHandler = "expand"
	}
	sc.Decl.Reenter = hr.Chance(1, 4)
	sc.World = WorldSpec{Cols: []int{80, 80, 30, 200, -1, 0, 12}[hr.Intn(7)], Now: 1700000000, Env: map[string]BStr{}}
	p := sc.C04
	mr := r.Fork("mode")
	p.EmptyComp = mr.Chance(1, 8)
	p.StaleComp = !p.EmptyComp && r.Fork("stalecomp").Chance(1, 10)
	p.Twice = r.Fork("twice").Chance(1, 4)
	if mr.Bool() {
		p.Mode = "plan"
		sc.Family = "plan+fault"
		p.Plan = genPlan(r.Fork("plan"), sc.Decl)
		twin := c04Run(sc, p.Plan.argv(), nil, nil, false)
		var calls []Call
		if len(twin.Ops) > 0 {
			calls = lastOp(twin).Calls
		}
		fr := r.Fork("fault")
		if !fr.Chance(1, 10) {
			for try := 0; try < 8; try++ {
				if f, ok := genArgFault(fr, sc.Decl, p.Plan, calls); ok {
					p.Fault = &f
					if f.Kind == "help" && fr.Chance(1, 3) {
						p.LateHelp = true
					} else if fr.Chance(1, 8) {
						p.LatePrint = true
					}
					break
				}
			}
		}
	} else {
		p.Mode = "adversarial"
		sc.Family = "adversarial"
		oddify(r.Fork("odd"), sc.Decl)
		ar := r.Fork("argv")
		p.Argv = bstrs(genArgvAdversarial(ar, sc.Decl, ar.Range(0, 8)))
		if ar.Chance(1, 4) {
			p.HasFirst = true
			p.Argv0 = bstrs(genArgvAdversarial(ar, sc.Decl, ar.Range(0, 6)))
		}
		if ar.Chance(1, 6) {
			// set a string option to an awkward value, then ask the same parser for help
			// (the current value is rendered as the default)
			var strs []optInfo
			for _, oi := range optInfos(sc.Decl) {
				if (oi.O.Kind == "string" || oi.O.Kind == "[]string" || oi.O.Kind == "*string" || oi.O.Kind == "map[string]string") && oi.LongFull != "" && len(oi.CmdPath) == 0 {
					strs = append(strs, oi)
				}
			}
			if len(strs) > 0 {
				oi := strs[ar.Intn(len(strs))]
				oi.O.Desc = "an option whose current value shows up in the help"
				oi.O.Choices = nil
				nasty := ar.Pick([]string{strings.Repeat("\x80", ar.Range(1, 300)), strings.Repeat("\xbf\x80", 90), "x" + strings.Repeat("\x80", 200), strings.Repeat("é", 150), strings.Repeat("w", 500),
					"a\nb\n\nc", strings.Repeat("ab ", 100), "\xff\xfe", strings.Repeat("-", 120), "tab\there", strings.Repeat("\xe2\x80", 80)})
				if isMapKind(oi.O.Kind) {
					nasty = "k:" + nasty
				}
				p.HasFirst = true
				p.Argv0 = []BStr{BStr("--" + oi.LongFull + "=" + nasty)}
				p.Argv = []BStr{BStr(ar.Pick([]string{"--help", "-h"}))}
				sc.Decl.Options |= optHelpFlag
			}
		}
		// some environment defaults, convertible or not
		for _, oi := range optInfos(sc.Decl) {
			if oi.O.Env != "" && ar.Chance(1, 3) {
				sc.World.Env[envFullOf(sc.Decl, oi)] = BStr(ar.Pick([]string{iniValText(ar, oi.O), "", "x!y", "\xff", "-", "\""}))
				if oi.O.EnvDelim != "" && ar.Chance(1, 3) {
					// list texts with awkward neighbours of the delimiter
					dl := oi.O.EnvDelim
					sc.World.Env[envFullOf(sc.Decl, oi)] = BStr(ar.Pick([]string{"a\\" + dl + "b", dl, dl + dl, "a" + dl, dl + "b\\", "\\" + dl + "\\" + dl}))
				}
			}
		}
	}
	wr := r.Fork("fd")
	if wr.Chance(1, 4) {
		wf := []simrt.WriteFault{{At: wr.Intn(2), Accept: wr.Pick2([]int{0, 0, 1, 7, 100}), Err: wr.Pick([]string{"EPIPE", "ENOSPC", "EIO"}), Sticky: wr.Bool()}}
		p.Fd1Faults, p.Fd2Faults = wf, wf
	}
	return sc
}

func (p *C04Payload) input() (argv []string, callee []CalleeFault, env map[string]string) {
	env = map[string]string{}
	if p.Mode == "adversarial" {
		return strs(p.Argv), nil, env
	}
	argv = p.Plan.argv()
	if p.Fault != nil {
		switch {
		case p.Fault.Callee != nil:
			callee = []CalleeFault{*p.Fault.Callee}
		case p.Fault.Kind == "env-unconvertible":
			env[p.Fault.EnvKey] = p.Fault.EnvVal
		default:
			argv = applyArgFault(p.Plan, *p.Fault)
		}
	}
	return
}

func c04Run(sc *Scenario, argv []string, callee []CalleeFault, env map[string]string, fdFaults bool) *Outcome {
	s2 := *sc
	s2.Callee = callee
	s2.World.Env = map[string]BStr{}
	for k, v := range sc.World.Env {
		s2.World.Env[k] = v
	}
	for k, v := range env {
		s2.World.Env[k] = BStr(v)
	}
	if sc.C04 != nil && sc.C04.EmptyComp {
		s2.World.Env["GO_FLAGS_COMPLETION"] = ""
	}
	if sc.C04 != nil && sc.C04.StaleComp {
		s2.World.Env["GO_FLAGS_COMPLETION"] = "1"
		s2.World.UnsetAfterBuild = []string{"GO_FLAGS_COMPLETION"}
	}
	op := Op{Kind: "parse", Argv: bstrs(argv)}
	if fdFaults && sc.C04 != nil {
		op.Fd1Faults, op.Fd2Faults = sc.C04.Fd1Faults, sc.C04.Fd2Faults
	}
	s2.Ops = []Op{op}
	if sc.C04 != nil && sc.C04.LateHelp && sc.C04.Plan != nil {
		d2 := *sc.Decl
		d2.Options &^= optHelpFlag
		s2.Decl = &d2
		s2.Ops = []Op{{Kind: "parse", Argv: bstrs(sc.C04.Plan.argv())}, {Kind: "setopts", IniOpts: sc.Decl.Options | optHelpFlag}, op}
	}
	if sc.C04 != nil && sc.C04.LatePrint && !sc.C04.LateHelp && !(sc.C04.Mode == "adversarial" && sc.C04.HasFirst) {
		d2 := *sc.Decl
		d2.Options ^= optPrintErrors
		s2.Decl = &d2
		s2.Ops = []Op{{Kind: "parse", Argv: []BStr{"--no-such-option-zz"}}, {Kind: "setopts", IniOpts: sc.Decl.Options}, op}
	}
	if sc.C04 != nil && sc.C04.Mode == "adversarial" && sc.C04.HasFirst {
		s2.Ops = []Op{{Kind: "parse", Argv: sc.C04.Argv0}, op}
	}
	if sc.C04 != nil && sc.C04.Twice && len(s2.Ops) == 1 && len(callee) == 1 && (callee[0].Kind == "execute" || callee[0].Kind == "handler") {
		every := callee[0]
		every.Nth = -1
		s2.Callee = []CalleeFault{every}
		s2.Ops = []Op{op, op}
	}
	return Execute(&s2, nil)
}

func tokenClasses(argv []string) string {
	cls := map[string]bool{}
	for _, a := range argv {
		switch {
		case a == "":
			cls["empty"] = true
		case a == "--":
			cls["ddash"] = true
		case a == "-":
			cls["dash"] = true
		case strings.HasPrefix(a, "---"):
			cls["3dash"] = true
		case strings.HasPrefix(a, "--") && strings.Contains(a, "="):
			cls["long="] = true
		case strings.HasPrefix(a, "--"):
			cls["long"] = true
		case strings.HasPrefix(a, "-") && strings.Contains(a, "="):
			cls["short="] = true
		case strings.HasPrefix(a, "-") && len(a) > 2:
			cls["cluster"] = true
		case strings.HasPrefix(a, "-"):
			cls["short"] = true
		case strings.HasPrefix(a, "\""):
			cls["quoted"] = true
		default:
			cls["word"] = true
		}
		if len(a) > 500 {
			cls["long-token"] = true
		}
		for i := 0; i < len(a); i++ {
			if a[i] >= 0x80 {
				cls["non-ascii"] = true
				break
			}
		}
	}
	return strings.Join(sortedKeys(cls), "+")
}

// outputDiscipline checks fd 1/2 against the returned error.
func outputDiscipline(v *Verdict, d *DeclSpec, r *OpResult, label string, argv []string, faulty bool, ref *OpResult) {
	fd1, fd2 := string(r.Fd1), string(r.Fd2)
	desc := fmt.Sprintf("%s argv=%q options=%#x -> err=%s/%s fd1=%s fd2=%s", label, argv, d.Options, r.Err, r.ErrType, q(clip(fd1, 300)), q(clip(fd2, 300)))
	if d.Options&optPrintErrors == 0 {
		if fd1 != "" || fd2 != "" {
			v.fail("c04:output-without-PrintErrors", "PrintErrors is not set, yet something was written to standard output / standard error: "+desc)
		}
		return
	}
	if r.Err == "" {
		if fd1 != "" || fd2 != "" {
			v.fail("c04:output-on-success", "the parse succeeded, yet something was written to standard output / standard error: "+desc)
		}
		return
	}
	want, other := fd2, fd1
	wantName, otherName := "standard error", "standard output"
	isHelp := (r.Err == "flags.Error" || r.Err == "injected") && r.ErrType == "help"
	if isHelp {
		want, other = fd1, fd2
		wantName, otherName = otherName, wantName
	}
	if r.Err == "injected" && r.ErrType == "" && strings.Contains(string(r.Msg), "injected flags error") {
		// a command's own error WRAPPING a *flags.Error: whether that still counts as
		// "help" is not fixed; exactly one descriptor must carry it
		if fd1 != "" && fd2 != "" || (!faulty && fd1 == "" && fd2 == "") {
			v.fail("c04:error-printed-more-than-once", "a wrapped error from a command must be written to exactly one descriptor: "+desc)
		}
		return
	}
	if other != "" {
		v.fail("c04:error-on-wrong-descriptor", fmt.Sprintf("the error text belongs on %s only, but %s received output: %s", wantName, otherName, desc))
		return
	}
	msg := string(r.Text) // err.Error(), the text the statement speaks of
	if strings.HasPrefix(msg, "<Error() panicked") {
		return // the error value has no text of its own (typed nil): what is printed for it is not fixed
	}
	if faulty {
		// the descriptor failed: what did arrive must be bytes of the full text, in order
		full := string(ref.Fd2)
		if isHelp {
			full = string(ref.Fd1)
		}
		// (not necessarily a prefix: a writer that goes on after a failed write, or
		// writes the text in pieces, legitimately leaves a hole)
		if !isSubsequence(want, full) {
			v.fail("c04:garbled-output-under-fd-fault", fmt.Sprintf("with a failing descriptor the bytes that arrived (%s) are not part of the text written without the fault (%s), in its order: %s", q(clip(want, 200)), q(clip(full, 200)), desc))
		}
		return
	}
	i := strings.Index(want, msg)
	if i < 0 {
		v.fail("c04:error-not-printed", fmt.Sprintf("PrintErrors is set and the error is %q, but %s does not contain it: %s", clip(msg, 200), wantName, desc))
		return
	}
	rest := want[:i] + want[i+len(msg):]
	if strings.TrimSpace(rest) != "" {
		v.fail("c04:error-printed-more-than-once", fmt.Sprintf("%s must contain the error text exactly once and nothing else, extra output %s: %s", wantName, q(clip(rest, 300)), desc))
	}
}

// isSubsequence: can a be obtained from b by leaving bytes out?
func isSubsequence(a, b string) bool {
	i := 0
	for j := 0; j < len(b) && i < len(a); j++ {
		if a[i] == b[j] {
			i++
		}
	}
	return i == len(a)
}

func (propC04) Judge(sc *Scenario) *Verdict {
	v := &Verdict{OK: true}
	p := sc.C04
	if p == nil {
		return harnessTrouble(v, "C04 scenario without payload")
	}
	d := sc.Decl
	argv, callee, env := p.input()
	o := c04Run(sc, argv, callee, env, false)
	v.Evals++
	v.addStats(o.Stats)
	if o.HarnessPanic != "" {
		return harnessTrouble(v, o.HarnessPanic)
	}
	if p.Twice && len(o.Ops) == 2 && len(callee) == 1 && lastOp(o).Injected != callee[0].ID {
		// the second call did not get as far as the command (a reused parser
		// remembers): judge the line on a fresh parser, as without Twice
		p2, sc2 := *p, *sc
		p2.Twice = false
		sc2.C04 = &p2
		p, sc = &p2, &sc2
		o = c04Run(sc, argv, callee, env, false)
		v.Evals++
		if o.HarnessPanic != "" {
			return harnessTrouble(v, o.HarnessPanic)
		}
	}
	fkind := "none"
	if p.Fault != nil {
		fkind = p.Fault.Kind
		if p.Fault.Callee != nil {
			fkind = "callee:" + p.Fault.Callee.Kind
		}
	}
	if len(p.Fd1Faults) > 0 {
		fkind += "+fd"
	}
	finish := func(outcome string) *Verdict {
		tc := tokenClasses(argv)
		for _, c := range strings.Split(tc, "+") {
			if c != "" {
				v.stat("cell.token:" + c + "|" + outcome)
			}
		}
		v.Sig = strings.Join([]string{"C04", p.Mode, fmt.Sprintf("opts%#x", d.Options), fkind, outcome}, "|")
		nt := p.Fault != nil || len(p.Fd1Faults) > 0
		for _, a := range argv {
			if strings.HasPrefix(a, "-") {
				nt = true
			}
		}
		v.NonTrivial = nt
		return v
	}
	if o.DeclHang {
		v.failAttr("C04", "c04:abnormal:hang", fmt.Sprintf("declaring the options (NewParser / AddGroup / AddCommand with the parser configured as in the scenario) did not return within the step budget; no argument vector can be parsed\nargv=%q options=%#x", argv, d.Options),
			map[string]string{"abnormal": "hang-while-declaring"})
		return finish("abnormal:hang")
	}
	if o.DeclErr != "" {
		v.NotJudged = "declaration rejected"
		return finish("declerr")
	}
	r := lastOp(o)
	label := "ParseArgs"
	if len(o.Ops) == 3 && p.LatePrint && !p.LateHelp {
		label = "ParseArgs after the PrintErrors bit got its declared value"
	} else if len(o.Ops) == 3 {
		label = "ParseArgs after HelpFlag was switched on"
	}
	if len(o.Ops) == 2 {
		label = "second ParseArgs on the same parser"
		if ab := abnormal(&o.Ops[0]); ab != "" {
			kind := strings.SplitN(ab, ":", 2)[0]
			v.failAttr("C04", "c04:abnormal:"+kind, fmt.Sprintf("ParseArgs did not return normally: %s\nargv=%q options=%#x", ab, strs(p.Argv0), d.Options), map[string]string{"abnormal": ab})
			return finish("abnormal:" + kind)
		}
		if o.Ops[0].Exit || o.Ops[0].Crash {
			return finish("first-died")
		}
	}
	// 1. returns normally
	if ab := abnormal(r); ab != "" {
		kind := strings.SplitN(ab, ":", 2)[0]
		v.failAttr("C04", "c04:abnormal:"+kind, fmt.Sprintf("ParseArgs did not return normally: %s\nargv=%q options=%#x env=%v", ab, argv, d.Options, sc.World.Env),
			map[string]string{"abnormal": ab, "argv": strings.Join(argv, "\x00")})
		return finish("abnormal:" + kind)
	}
	outcome := "ok"
	if r.Err != "" {
		outcome = "rejected:" + r.ErrType
		if r.Err != "flags.Error" {
			outcome = "rejected:" + r.Err
		}
	}
	// 2. typed rejections for injected faults with a known cause; the expectation
	// presupposes that the line without the fault is accepted
	twinOK := true
	if p.Fault != nil && p.Fault.Expect != "" {
		tw := c04Run(sc, p.Plan.argv(), nil, nil, false)
		v.Evals++
		if t := lastOp(tw); t.Err != "" || abnormal(t) != "" {
			twinOK = false
			v.stat("probe.twin-rejected")
		}
	}
	if p.Fault != nil && p.Fault.Expect != "" && !twinOK {
		v.NotJudged = "generated line not accepted"
	} else if p.Fault != nil && p.Fault.Expect != "" {
		if r.Err == "" {
			v.NotJudged = "faulty line accepted (whether it should be rejected is not decided here)"
			v.stat("probe.fault-accepted:" + p.Fault.Kind)
		} else if p.Fault.Expect == "positional conversion" || p.Fault.Expect == "handler error" {
			// rejected, and the statement names no type for it
		} else if p.Fault.Expect == "injected" {
			if r.Err != "injected" || (p.Fault.Callee != nil && !injectedIs(r, p.Fault.Callee.ID)) {
				v.fail("c04:command-error-not-returned-unchanged", fmt.Sprintf("Execute/handler failed with injected error #%d; ParseArgs must return it unchanged, got %s/%s %q (argv=%q)", p.Fault.Callee.ID, r.Err, r.ErrType, clip(string(r.Msg), 200), argv))
			}
		} else if r.Err != "flags.Error" || !strings.Contains("|"+p.Fault.Expect+"|", "|"+r.ErrType+"|") {
			v.fail("c04:wrong-error-type:"+strings.SplitN(p.Fault.Expect, "|", 2)[0], fmt.Sprintf("fault %s (%s) must be rejected as *flags.Error of type %q, got %s/%s %q\nargv=%q (valid line was %q)", p.Fault.Kind, p.Fault.Text+p.Fault.EnvKey, p.Fault.Expect, r.Err, r.ErrType, clip(string(r.Msg), 200), argv, p.Plan.argv()))
		}
	}
	// every rejection produced by the library itself is a *flags.Error with a documented type
	if r.Err != "" && r.Err != "flags.Error" && r.Err != "injected" {
		foreignOK := false
		for _, a := range bArgs(sc) {
			if a.Kind != "string" && a.Kind != "[]string" && (strings.Contains(string(r.Msg), "strconv.") || strings.Contains(string(r.Msg), "time: ")) {
				foreignOK = true // positional conversion errors are returned raw; the statement does not list them
			}
		}
		if d.UnknownHandler == "fail" {
			foreignOK = true // the unknown-option handler's own error is handed back as is
		}
		if !foreignOK {
			v.fail("c04:untyped-rejection", fmt.Sprintf("a rejection by the parser must be a *flags.Error, got %s %q for argv=%q", r.Err, clip(string(r.Msg), 200), argv))
		}
	}
	posConv := false
	for _, a := range bArgs(sc) {
		if a.Kind != "string" && a.Kind != "[]string" && (strings.Contains(string(r.Msg), "strconv.") || strings.Contains(string(r.Msg), "time: ")) {
			posConv = true // a positional word that does not convert: the statement names no type for that
		}
	}
	if r.Err == "flags.Error" && r.ErrType == "unknown" && r.Injected == 0 && !posConv {
		v.fail("c04:untyped-rejection", fmt.Sprintf("the rejection carries ErrUnknown, not a documented type: %q for argv=%q env=%v", clip(string(r.Msg), 200), argv, env))
	}
	if !v.OK {
		return finish(outcome)
	}
	// 3. output discipline
	outputDiscipline(v, d, r, label, argv, false, nil)
	if !v.OK {
		return finish(outcome)
	}
	// 4. failing descriptors: same returned values, nothing worse than a prefix
	if len(p.Fd1Faults)+len(p.Fd2Faults) > 0 {
		of := c04Run(sc, argv, callee, env, true)
		v.Evals++
		v.addStats(of.Stats)
		rf := lastOp(of)
		if ab := abnormal(rf); ab != "" {
			v.fail("c04:abnormal-under-fd-fault:"+strings.SplitN(ab, ":", 2)[0], fmt.Sprintf("with a failing stdout/stderr ParseArgs did not return normally: %s (argv=%q)", ab, argv))
			return finish(outcome)
		}
		if rf.Err != r.Err || rf.ErrType != r.ErrType || rf.Msg != r.Msg || mustJSON(rf.Rest) != mustJSON(r.Rest) || strings.Join(rf.Values, "\n") != strings.Join(r.Values, "\n") {
			v.fail("c04:fd-fault-changes-result", fmt.Sprintf("a failing stdout/stderr changed what ParseArgs returned:\n  healthy: %s/%s %q rest=%s\n  failing: %s/%s %q rest=%s\nargv=%q", r.Err, r.ErrType, clip(string(r.Msg), 100), mustJSON(r.Rest), rf.Err, rf.ErrType, clip(string(rf.Msg), 100), mustJSON(rf.Rest), argv))
			return finish(outcome)
		}
		if rf.FaultsFired > 0 {
			outputDiscipline(v, d, rf, label+" (failing descriptor)", argv, true, r)
		}
	}
	return finish(outcome)
}

func bArgs(sc *Scenario) []*ArgSpec {
	var out []*ArgSpec
	sc.Decl.eachGroupSpec(func(g *GroupSpec, cp []string, own bool) {
		out = append(out, g.Pos...)
	})
	return out
}

func (propC04) Reductions(sc *Scenario) []func(*Scenario) bool {
	var out []func(*Scenario) bool
	p := sc.C04
	if p == nil {
		return nil
	}
	if len(p.Fd1Faults)+len(p.Fd2Faults) > 0 {
		out = append(out, func(s *Scenario) bool { s.C04.Fd1Faults, s.C04.Fd2Faults = nil, nil; return true })
	}
	if p.Twice {
		out = append(out, func(s *Scenario) bool { s.C04.Twice = false; return true })
	}
	if p.StaleComp {
		out = append(out, func(s *Scenario) bool { s.C04.StaleComp = false; return true })
	}
	if p.EmptyComp {
		out = append(out, func(s *Scenario) bool { s.C04.EmptyComp = false; return true })
	}
	if p.LatePrint {
		out = append(out, func(s *Scenario) bool { s.C04.LatePrint = false; return true })
	}
	if p.LateHelp {
		out = append(out, func(s *Scenario) bool { s.C04.LateHelp = false; return true })
	}
	if p.HasFirst {
		out = append(out, func(s *Scenario) bool { s.C04.Argv0, s.C04.HasFirst = nil, false; return true })
		for i := range p.Argv0 {
			i := i
			out = append(out, func(s *Scenario) bool {
				if i >= len(s.C04.Argv0) {
					return false
				}
				s.C04.Argv0 = append(s.C04.Argv0[:i:i], s.C04.Argv0[i+1:]...)
				return true
			})
		}
	}
	for i := range p.Argv {
		i := i
		out = append(out, func(s *Scenario) bool {
			if i >= len(s.C04.Argv) {
				return false
			}
			s.C04.Argv = append(s.C04.Argv[:i:i], s.C04.Argv[i+1:]...)
			return true
		})
		out = append(out, func(s *Scenario) bool {
			if i >= len(s.C04.Argv) || len(s.C04.Argv[i]) < 8 {
				return false
			}
			a := s.C04.Argv[i]
			s.C04.Argv[i] = a[:len(a)/2]
			return true
		})
	}
	if p.Plan != nil {
		for i := range p.Plan.Toks {
			i := i
			out = append(out, func(s *Scenario) bool {
				q := s.C04.Plan
				if q == nil || i >= len(q.Toks) {
					return false
				}
				t := q.Toks[i]
				lo, hi := i, i+1
				switch t.Role {
				case "cmd", "val":
					return false
				case "optname":
					if i+1 < len(q.Toks) && q.Toks[i+1].Role == "val" {
						hi = i + 2
					}
				}
				if f := s.C04.Fault; f != nil && f.Pos >= lo && f.Pos < hi && f.Callee == nil && f.Kind != "env-unconvertible" && f.Kind != "delete-required" && f.Kind != "delete-cmd" {
					return false
				}
				q.Toks = append(q.Toks[:lo:lo], q.Toks[hi:]...)
				if f := s.C04.Fault; f != nil && f.Pos > lo {
					f.Pos -= hi - lo
				}
				return true
			})
		}
	}
	return out
}
