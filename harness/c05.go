package main

import (
	"fmt"
	"sort"
	"strings"
)

// C05 — defaults and value-source precedence, judged against a small
// executable precedence model over histories on one long-lived parser.

type C05Ini struct {
	Opt     string `json:"opt"`
	Section string `json:"section"`
	Key     string `json:"key"`
	Val     string `json:"val"`
}

type C05Payload struct {
	Shape   string          `json:"shape"` // ini-parse | defini-parse | parse-defini | parse
	Stores  []Op            `json:"stores,omitempty"`
	Env0    map[string]BStr `json:"env0,omitempty"`     // environment at process start
	EnvMid  []Op            `json:"env_mid,omitempty"`  // setenv/unsetenv between the two operations
	EnvLate []Op            `json:"env_late,omitempty"` // after the last operation that reads the environment... applied before op 2 when op 1 is ParseArgs
	Ini     []C05Ini        `json:"ini,omitempty"`
	Plan    *Plan           `json:"plan"`
}

type propC05 struct{}

func (propC05) ID() string { return "C05" }

func c05Cfg() *DeclCfg {
	return &DeclCfg{
		Kinds: []string{"bool", "int", "int", "int32", "uint", "float64", "string", "string", "duration", "[]int", "[]string", "[]string", "map[string]int", "map[string]string",
			"*int", "*string", "um", "[]um", "func(string)", "func(int)", "filename", "uint8", "int64", "[]float64", "map[int]string", "ulist", "*[]string", "*[]int"},
		MinOpts: 1, MaxOpts: 4, MaxGroups: 2, MaxSub: 2, MaxCmds: 2, MaxDepth: 2, Exec: true,
		Env: true, Defaults: true, Optional: true, Choices: true, Hidden: true, Namespaces: true, Init: true, InitMulti: false, IniName: true, PtrGroups: true,
		ParserOpts: []uint{0, optHelpFlag, optHelpFlag | optPassDoubleDash, optIgnoreUnknown | optHelpFlag, optHelpFlag | optPrintErrors | optPassDoubleDash},
	}
}

// c05Decl: more env namespaces and env/default tags on callbacks.
func c05Decl(r *Rng) *DeclSpec {
	d := genDecl(r.Fork("decl"), c05Cfg())
	makeSubOptional(d)
	xr := r.Fork("extra")
	d.eachGroupSpec(func(g *GroupSpec, cp []string, own bool) {
		if !own && g != d.Root && xr.Chance(1, 3) {
			g.EnvNamespace = xr.Pick([]string{"APP", "NS", "X", "DEEP", "APP_", "NS.", "X-", "_"})
		}
		for _, o := range g.Opts {
			if o.Optional && (isSliceKind(o.Kind) || isMapKind(o.Kind) || strings.HasPrefix(o.Kind, "*[]")) {
				// a bare occurrence of an optional-argument slice/map resets the
				// earlier occurrences: that is C01's business, keep it out of C05
				o.Optional, o.OptionalValue = false, nil
			}
			if isFuncKind(o.Kind) && !strings.HasPrefix(o.Kind, "func()") {
				ak := o.Kind[5:strings.Index(o.Kind, ")")]
				if xr.Chance(1, 2) {
					o.Env = "E_CB_" + strings.ToUpper(o.Field)
					if xr.Bool() {
						o.EnvDelim = xr.Pick([]string{",", ":"})
					}
				}
				if xr.Chance(1, 3) {
					o.Default = []BStr{BStr(genPlainText(xr, ak))}
				}
			}
			// a default tag that contains the env delimiter is used as written
			if o.EnvDelim != "" && (o.Kind == "[]string" || o.Kind == "ulist" || o.Kind == "map[string]string" || o.Kind == "func(string)") && xr.Chance(1, 2) {
				t := "p" + o.EnvDelim + "q"
				if isMapKind(o.Kind) {
					t = "k:" + t
				}
				o.Default = []BStr{BStr(t)}
			}
			if (o.Kind == "string" || o.Kind == "[]string") && len(o.Choices) == 0 && len(o.Default) > 0 && xr.Chance(1, 8) {
				o.Default[0] = BStr(xr.Pick([]string{"$5.00", "${name}", "$USER> ", "100%", "a$b"})) // a default tag is taken as written
			}
			// an empty default tag is a default like any other: the empty string
			if er := xr.Fork("emptydef" + o.Field); len(o.Choices) == 0 && !o.Required && er.Chance(1, 8) {
				switch {
				case o.Kind == "string" || o.Kind == "*string":
					o.Default = []BStr{""}
				case o.Kind == "[]string" && len(o.Default) > 0:
					o.Default = append(o.Default, "")
				}
			}
			// env on more options, delimiters on multi-valued ones
			if o.Env == "" && !isFuncKind(o.Kind) && xr.Chance(1, 3) {
				o.Env = "E_X_" + strings.ToUpper(o.Field)
				if (isSliceKind(o.Kind) || isMapKind(o.Kind)) && xr.Chance(2, 3) {
					o.EnvDelim = xr.Pick([]string{",", ";", "->", "::"})
				}
			}
		}
	})
	if xr.Chance(1, 3) {
		d.EnvNSDelim = xr.Pick([]string{"__", ".", "-"})
	}
	// the same INI key in two unrelated sections (two commands, or two top-level
	// groups): each names the option of its own section
	if kr := r.Fork("sharedkey"); kr.Chance(1, 4) {
		region := func(oi optInfo) string {
			if len(oi.CmdPath) > 0 {
				return "c:" + strings.Join(oi.CmdPath, ".")
			}
			gp := strings.SplitN(oi.Path, "|", 3)[1]
			return "g:" + strings.SplitN(gp, "/", 2)[0]
		}
		var cands []optInfo
		for _, oi := range optInfos(d) {
			if !oi.O.NoIni && !isFuncKind(oi.O.Kind) {
				cands = append(cands, oi)
			}
		}
		if len(cands) >= 2 {
			a := cands[kr.Intn(len(cands))]
			var others []optInfo
			for _, oi := range cands {
				if region(oi) != region(a) {
					others = append(others, oi)
				}
			}
			if len(others) > 0 {
				b := others[kr.Intn(len(others))]
				a.O.IniName, b.O.IniName = sharedIniKey, sharedIniKey
			}
		}
	}
	return d
}

const sharedIniKey = "shared_key"

func envTextFor(r *Rng, o *OptSpec) string {
	k := o.Kind
	if isFuncKind(k) {
		k = k[5:strings.Index(k, ")")]
	}
	one := func() string {
		if len(o.Choices) > 0 {
			return r.Pick(o.Choices)
		}
		if (baseKind(k) == "string" || k == "filename") && !isMapKind(k) && r.Chance(1, 6) {
			return r.Pick([]string{"-O2", "-->", "--x", "-", "-1"}) // option-looking text is ordinary data in the environment
		}
		if baseKind(k) == "string" && !isMapKind(k) && len(o.Choices) == 0 && r.Chance(1, 8) {
			return r.Pick([]string{"host=db", "a=b=c", "=x", "k=", "tier=web"}) // an equals sign in a value is an ordinary character
		}
		if baseKind(k) == "string" && !isMapKind(k) && len(o.Choices) == 0 && r.Chance(1, 8) {
			return r.Pick([]string{" lead", "trail ", " both ", "\ttab", "in ner", " "}) // blanks are part of an environment value
		}
		if baseKind(k) == "string" && !isMapKind(k) && len(o.Choices) == 0 && r.Chance(1, 8) {
			// quote characters in an environment value are ordinary characters; so is a
			// comma where no env-delim is declared
			return r.Pick([]string{"\"on\"", "\"a b\"", "\"tab\\there\"", "a.example,b.example", "x,y,z", "\"\""})
		}
		if baseKind(k) == "string" && !isMapKind(k) && o.EnvDelim != "" && len(o.Choices) == 0 && r.Chance(1, 8) {
			return r.Pick(plainWords) + "\\" // a backslash in front of the delimiter is an ordinary character
		}
		if isMapKind(k) {
			return genPlainText(r, mapKeyKind(k)) + ":" + genPlainText(r, elemKind(k))
		}
		return genPlainText(r, k)
	}
	if o.EnvDelim != "" {
		n := r.Range(1, 3)
		var parts []string
		for i := 0; i < n; i++ {
			parts = append(parts, one())
		}
		if (k == "[]string" || k == "ulist" || k == "string") && len(o.Choices) == 0 && r.Chance(1, 6) {
			// a list text that begins or ends with the delimiter has an empty element there
			switch r.Intn(3) {
			case 0:
				parts = append([]string{""}, parts...)
			case 1:
				parts = append(parts, "")
			default:
				parts = append(append([]string{""}, parts...), "")
			}
		}
		if (k == "[]string" || k == "ulist") && len(o.EnvDelim) > 1 && r.Chance(1, 4) {
			// elements made of the delimiter's own characters
			parts = append(parts, o.EnvDelim[:1]+"x"+o.EnvDelim[1:])
			parts[0] = o.EnvDelim[1:] + parts[0]
		}
		return strings.Join(parts, o.EnvDelim)
	}
	return one()
}

func (propC05) Gen(r *Rng, idx int, tier string) *Scenario {
	sc := &Scenario{Prop: "C05", Family: "history", C05: &C05Payload{}}
	sc.Decl = c05Decl(r)
	sc.World = WorldSpec{Cols: 80, Now: 1700000000, Env: map[string]BStr{}}
	p := sc.C05
	p.Shape = r.Fork("shape").Pick([]string{"ini-parse", "defini-parse", "parse-defini", "parse", "defini-parse", "parse-defini", "parse-parse", "ini-failparse-parse", "ini-parse-defini", "failini-parse", "parse-delim-parse", "parse-parse-defini", "parse-cfgcallback", "parse-same-parse"})
	if p.Shape == "parse-cfgcallback" {
		// a "--load-config FILE" option whose callback reads the INI text as defaults
		if sc.Decl.Root == nil {
			sc.Decl.Root = &GroupSpec{Name: "Application Options"}
		}
		sc.Decl.Root.Opts = append(sc.Decl.Root.Opts, &OptSpec{Field: "FLoadConfig", Kind: "func(string)", Long: "load-config", Desc: "read this configuration file"})
	}
	p.Plan = genPlan(r.Fork("plan"), sc.Decl)
	ois := optInfos(sc.Decl)
	if br := r.Fork("badcli"); br.Chance(1, 12) {
		// one command-line value that does not convert: an error must come back
		var cands []int
		for i, t := range p.Plan.Toks {
			b := baseKind(t.Kind)
			if (t.Role == "val" || t.Role == "optval") && !isFuncKind(t.Kind) && (strings.Contains(b, "int") || strings.Contains(b, "float") || (isMapKind(t.Kind) && strings.Contains(mapKeyKind(t.Kind), "int"))) {
				cands = append(cands, i)
			}
		}
		if len(cands) > 0 {
			t := &p.Plan.Toks[cands[br.Intn(len(cands))]]
			bad := "x!y"
			if isMapKind(t.Kind) {
				bad = "k:x!y"
				if strings.Contains(mapKeyKind(t.Kind), "int") {
					bad = "x!y:v"
				}
			}
			t.Val = bad
			if t.Role == "optval" {
				t.Text = t.Name + bad
			} else {
				t.Text = bad
			}
		}
	}
	sr := r.Fork("sources")
	p.Env0 = map[string]BStr{}
	for _, oi := range ois {
		o := oi.O
		// stored beforehand
		if !isFuncKind(o.Kind) && sr.Chance(1, 4) {
			v := genStoreValue(sr, o.Kind, false)
			p.Stores = append(p.Stores, Op{Kind: "store", Path: oi.Path, Val: &v})
		}
		// environment
		if o.Env != "" && envFullOf(sc.Decl, oi) != o.Env && sr.Chance(1, 4) {
			// only the BARE key is set: it is not this option's variable
			p.Env0[o.Env] = BStr(envTextFor(sr, o))
		} else if o.Env != "" && sr.Chance(1, 2) {
			key := envFullOf(sc.Decl, oi)
			switch x := sr.Intn(24); {
			case x == 0 && baseKind(o.Kind) != "bool":
				p.Env0[key] = "" // set but empty
			case x == 1 && (strings.Contains(baseKind(o.Kind), "int") || strings.Contains(baseKind(o.Kind), "float") || strings.Contains(o.Kind, "func(int")):
				// one element of the environment text does not convert
				txt := envTextFor(sr, o)
				bad := "x!y"
				if isMapKind(o.Kind) {
					bad = "k:x!y" // (a map entry without value part would be the empty-text boundary)
					if strings.Contains(mapKeyKind(o.Kind), "int") {
						bad = "x!y:v"
					}
				}
				if o.EnvDelim != "" {
					parts := strings.Split(txt, o.EnvDelim)
					parts[sr.Intn(len(parts))] = bad
					if len(parts) > 1 && sr.Bool() {
						parts[0] = bad // a bad non-final element
						parts[len(parts)-1] = strings.Split(envTextFor(sr, o), o.EnvDelim)[0]
					}
					txt = strings.Join(parts, o.EnvDelim)
				} else {
					txt = bad
				}
				p.Env0[key] = BStr(txt)
			default:
				p.Env0[key] = BStr(envTextFor(sr, o))
			}
		}
		// INI entries
		if p.Shape != "parse" && p.Shape != "parse-parse" && p.Shape != "parse-delim-parse" && p.Shape != "parse-same-parse" && !o.NoIni && (sr.Chance(1, 3) || (o.IniName == sharedIniKey && sr.Chance(2, 3))) {
			n := 1
			if isSliceKind(o.Kind) || isMapKind(o.Kind) {
				n = sr.Range(1, 3)
			}
			key := sr.Pick(iniKeySpellings(oi))
			if o.IniName == sharedIniKey {
				key = sharedIniKey
			}
			for i := 0; i < n; i++ {
				val := iniValText(sr, o)
				if isFuncKind(o.Kind) {
					val = strings.TrimSpace(envTextFor(sr, &OptSpec{Kind: o.Kind, Choices: o.Choices})) // (blanks around an INI value are not part of it)
					if val == "" || strings.ContainsAny(val, "\"\\") {
						val = "x" // (quotes and backslashes have a meaning of their own in an INI value)
					}
				}
				if o.Kind == "string" && len(o.Choices) == 0 && sr.Chance(1, 12) {
					val = sr.Pick([]string{"C:\\data\\", "back\\", "a\\b"}) // a backslash, also the last character, is an ordinary character of an unquoted value
				}
				if o.Kind == "string" && len(o.Choices) == 0 && sr.Chance(1, 10) {
					// a value longer than any read buffer, and not a repetition of one
					// character (a reader that mixes up its buffers would go unnoticed)
					pat := sr.Pick([]string{"abcdefghij", "0123456789", "xy z"})
					n := sr.Range(4100, 9000)
					if sr.Chance(1, 5) {
						n = sr.Range(65600, 70000) // beyond the token limit of a bufio.Scanner
					}
					val = "L" + strings.Repeat(pat, n/len(pat)) + "E"
				}
				p.Ini = append(p.Ini, C05Ini{Opt: oi.Path, Section: oi.Section, Key: key, Val: val})
			}
		}
	}
	// two options of the same slice kind initialised from one slice value
	if sr.Chance(1, 4) {
		byKind := map[string][]optInfo{}
		for _, oi := range ois {
			if isSliceKind(oi.O.Kind) && oi.O.Kind != "ulist" {
				byKind[oi.O.Kind] = append(byKind[oi.O.Kind], oi)
			}
		}
		for _, k := range sortedKeys(byKind) {
			if xs := byKind[k]; len(xs) >= 2 {
				val := V{L: []V{genStoreScalar(sr, elemKind(k), false), genStoreScalar(sr, elemKind(k), false)}}
				var keep []Op
				for _, st := range p.Stores {
					if st.Path != xs[0].Path && st.Path != xs[1].Path {
						keep = append(keep, st)
					}
				}
				p.Stores = append(keep, Op{Kind: "store", Path: xs[0].Path, Val: &val, ShareWith: xs[1].Path})
				break
			}
		}
	}
	sort.SliceStable(p.Ini, func(i, j int) bool { return p.Ini[i].Section < p.Ini[j].Section })
	// environment changes between and after the operations
	mr := r.Fork("envmid")
	for _, oi := range ois {
		if oi.O.Env == "" || !mr.Chance(1, 5) {
			continue
		}
		key := envFullOf(sc.Decl, oi)
		var op Op
		if mr.Chance(1, 3) {
			op = Op{Kind: "unsetenv", Key: key}
		} else {
			op = Op{Kind: "setenv", Key: key, Text: BStr(envTextFor(mr, oi.O))}
		}
		p.EnvMid = append(p.EnvMid, op)
	}
	return sc
}

func (p *C05Payload) iniText() string {
	var b strings.Builder
	cur := ""
	for _, e := range p.Ini {
		if e.Section != cur {
			b.WriteString("[" + e.Section + "]\n")
			cur = e.Section
		}
		b.WriteString(e.Key + " = " + e.Val + "\n")
	}
	return b.String()
}

// cliTexts derives, per option path, the argument texts its occurrences on the
// planned command line denote ("" for a flag occurrence).
func cliTexts(d *DeclSpec, p *Plan) map[string][]string {
	out := map[string][]string{}
	byShort := map[string]optInfo{}
	byPath := map[string]optInfo{}
	for _, oi := range optInfos(d) {
		byPath[oi.Path] = oi
		if oi.O.Short != "" {
			byShort[oi.O.Short] = oi
		}
	}
	for _, t := range p.Toks {
		switch t.Role {
		case "flag":
			oi := byPath[t.Opt]
			if oi.O != nil && oi.O.Optional && !isBoolFlag(oi.O.Kind) {
				out[t.Opt] = append(out[t.Opt], strs(oi.O.OptionalValue)...)
			} else {
				out[t.Opt] = append(out[t.Opt], "")
			}
		case "optval", "val":
			out[t.Opt] = append(out[t.Opt], t.Val)
		case "cluster":
			for _, r := range t.Text[1:] {
				if oi, ok := byShort[string(r)]; ok {
					out[oi.Path] = append(out[oi.Path], "")
				}
			}
		}
	}
	return out
}

func zeroV(kind string) V {
	if isPtrKind(kind) {
		return V{Nil: true}
	}
	return V{}
}

type c05Source struct {
	name  string
	texts []string
}

// c05Model: which source wins for the option and which texts it supplies.
func c05Model(oi optInfo, d *DeclSpec, cli map[string][]string, ini map[string][]string, env map[string]string) c05Source {
	o := oi.O
	if t, ok := cli[oi.Path]; ok && len(t) > 0 {
		return c05Source{"cli", t}
	}
	if t, ok := ini[oi.Path]; ok && len(t) > 0 {
		return c05Source{"ini", t}
	}
	if o.Env != "" {
		if val, ok := env[envFullOf(d, oi)]; ok {
			if o.EnvDelim != "" {
				return c05Source{"env", strings.Split(val, o.EnvDelim)}
			}
			return c05Source{"env", []string{val}}
		}
	}
	if len(o.Default) > 0 {
		return c05Source{"default", strs(o.Default)}
	}
	return c05Source{"stored", nil}
}

// sourceConverts: does every text of the source convert for the option (by the
// harness's own converter, incl. the choice list)? boundary reports that the
// answer hinges on an empty text, which is C11's business.
func sourceConverts(oi optInfo, src c05Source) (ok bool, boundary bool) {
	k := oi.O.Kind
	if src.name == "stored" {
		return true, false
	}
	for _, t := range src.texts {
		if t == "" || (isMapKind(k) && (!strings.Contains(t, ":") || strings.HasSuffix(t, ":") || strings.HasPrefix(t, ":"))) {
			boundary = true
		}
	}
	var err error
	if isFuncKind(k) {
		if !strings.HasPrefix(k, "func()") {
			ak := k[5:strings.Index(k, ")")]
			for _, t := range src.texts {
				if _, e := plainToV(ak, t); e != nil {
					err = e
				}
			}
		}
	} else {
		_, err = modelApply(k, src.texts)
	}
	if err == nil && len(oi.O.Choices) > 0 {
		for _, t := range src.texts {
			found := false
			for _, c := range oi.O.Choices {
				found = found || c == t
			}
			if !found {
				err = fmt.Errorf("not an allowed choice")
			}
		}
	}
	if err == nil {
		return true, false
	}
	return false, boundary
}

func (propC05) Judge(sc *Scenario) *Verdict {
	v := &Verdict{OK: true}
	p := sc.C05
	if p == nil || p.Plan == nil {
		return harnessTrouble(v, "C05 scenario without payload")
	}
	d := sc.Decl
	{
		// scope guard (matters while shrinking): INI entries must address declared
		// options through their section
		sect := map[string]string{}
		for _, oi := range optInfos(d) {
			sect[oi.Path] = oi.Section
		}
		for _, e := range p.Ini {
			if s, ok := sect[e.Opt]; !ok || s != e.Section {
				v.NotJudged = "an INI entry addresses an option that is not declared"
				v.Sig = "C05|undeclared"
				return v
			}
		}
	}
	s2 := *sc
	s2.World.Env = map[string]BStr{}
	for k, val := range p.Env0 {
		s2.World.Env[k] = val
	}
	s2.Ops = append([]Op{}, p.Stores...)
	iniOp := Op{Kind: "iniread", Data: BStr(p.iniText()), AsDefaults: p.Shape != "ini-parse" && p.Shape != "ini-failparse-parse" && p.Shape != "ini-parse-defini" && p.Shape != "failini-parse"}
	parseOp := Op{Kind: "parse", Argv: bstrs(p.Plan.argv())}
	parseIdx := 0
	switch p.Shape {
	case "ini-parse", "defini-parse":
		s2.Ops = append(s2.Ops, iniOp)
		s2.Ops = append(s2.Ops, p.EnvMid...)
		parseIdx = len(s2.Ops)
		s2.Ops = append(s2.Ops, parseOp)
	case "parse-defini":
		parseIdx = len(s2.Ops)
		s2.Ops = append(s2.Ops, parseOp)
		s2.Ops = append(s2.Ops, p.EnvMid...) // must not matter: ParseArgs has run
		s2.Ops = append(s2.Ops, iniOp)
	case "ini-parse-defini":
		// INI read, ParseArgs, then the SAME text read again as defaults through the
		// same IniParser (a configuration reload): the command line keeps its rank
		s2.Ops = append(s2.Ops, iniOp)
		s2.Ops = append(s2.Ops, p.EnvMid...)
		parseIdx = len(s2.Ops)
		s2.Ops = append(s2.Ops, parseOp)
		again := iniOp
		again.AsDefaults = true
		s2.Ops = append(s2.Ops, again)
	case "failini-parse":
		// an INI text whose last line is faulty (the read fails), then ParseArgs
		bad := iniOp
		bad.Data = BStr(string(iniOp.Data) + "[Application Options]\nno-such-key-zz = 1\n")
		s2.Ops = append(s2.Ops, bad)
		s2.Ops = append(s2.Ops, p.EnvMid...)
		parseIdx = len(s2.Ops)
		s2.Ops = append(s2.Ops, parseOp)
	case "parse-delim-parse":
		// the env-namespace delimiter is changed between two ParseArgs: the variable
		// looked up is the one spelt with the delimiter in force at the time
		s2.Ops = append(s2.Ops, Op{Kind: "setenvdelim", Text: "+"})
		s2.Ops = append(s2.Ops, Op{Kind: "parse"})
		s2.Ops = append(s2.Ops, Op{Kind: "setenvdelim", Text: BStr(envNSDelim(d))})
		s2.Ops = append(s2.Ops, p.EnvMid...)
		parseIdx = len(s2.Ops)
		s2.Ops = append(s2.Ops, parseOp)
	case "ini-failparse-parse":
		// INI read, then a ParseArgs that is rejected, then the judged ParseArgs: the
		// aborted parse must not disturb what the INI established
		s2.Ops = append(s2.Ops, iniOp)
		s2.Ops = append(s2.Ops, Op{Kind: "parse", Argv: []BStr{"--no-such-option-zz=1", "---"}})
		s2.Ops = append(s2.Ops, p.EnvMid...)
		parseIdx = len(s2.Ops)
		s2.Ops = append(s2.Ops, parseOp)
	case "parse-cfgcallback":
		// the INI text is read as defaults by the callback of --load-config, which
		// stands somewhere on the command line: before it, after it or between the
		// occurrences of the options the file also sets
		txt := iniOp.Data
		s2.CfgIni = &txt
		argv := p.Plan.argv()
		pos := safeInsertPositions(d, p.Plan)
		at := 0
		if len(pos) > 0 {
			at = pos[int(hashStr(mustJSON(argv))%uint64(len(pos)))]
		}
		argv = append(append(append([]string{}, argv[:at]...), "--load-config=app.ini"), argv[at:]...)
		s2.Ops = append(s2.Ops, p.EnvMid...)
		parseIdx = len(s2.Ops)
		s2.Ops = append(s2.Ops, Op{Kind: "parse", Argv: bstrs(argv)})
	case "parse-same-parse":
		// the same command line handed to the same parser twice: what it gives is
		// what it gives once (explicit values replace, defaults are applied afresh)
		s2.Ops = append(s2.Ops, parseOp)
		s2.Ops = append(s2.Ops, p.EnvMid...)
		parseIdx = len(s2.Ops)
		s2.Ops = append(s2.Ops, parseOp)
	case "parse-parse-defini":
		// a reused parser (first ParseArgs with an empty command line), then the judged
		// ParseArgs, then the INI text read as defaults: the command line keeps its rank
		s2.Ops = append(s2.Ops, Op{Kind: "parse"})
		s2.Ops = append(s2.Ops, p.EnvMid...)
		parseIdx = len(s2.Ops)
		s2.Ops = append(s2.Ops, parseOp)
		s2.Ops = append(s2.Ops, iniOp)
	case "parse-parse":
		// a reused parser: a first ParseArgs with an empty command line (so every
		// option is defaulted, none explicitly set), the environment changes, then
		// the judged ParseArgs
		s2.Ops = append(s2.Ops, Op{Kind: "parse"})
		s2.Ops = append(s2.Ops, p.EnvMid...)
		parseIdx = len(s2.Ops)
		s2.Ops = append(s2.Ops, parseOp)
	default:
		s2.Ops = append(s2.Ops, p.EnvMid...)
		parseIdx = len(s2.Ops)
		s2.Ops = append(s2.Ops, parseOp)
	}
	o := Execute(&s2, nil)
	v.Evals++
	v.addStats(o.Stats)
	if o.HarnessPanic != "" {
		return harnessTrouble(v, o.HarnessPanic)
	}
	// the environment as ParseArgs saw it
	env := map[string]string{}
	for k, val := range p.Env0 {
		env[k] = string(val)
	}
	if p.Shape != "parse-defini" {
		for _, op := range p.EnvMid {
			if op.Kind == "setenv" {
				env[op.Key] = string(op.Text)
			} else {
				delete(env, op.Key)
			}
		}
	}
	cli := cliTexts(d, p.Plan)
	ini := map[string][]string{}
	for _, e := range p.Ini {
		ini[e.Opt] = append(ini[e.Opt], e.Val)
	}
	stored := map[string]V{}
	for _, oi := range optInfos(d) {
		if oi.O.Init != nil {
			stored[oi.Path] = *oi.O.Init
		}
	}
	for _, st := range p.Stores {
		if st.Val != nil {
			stored[st.Path] = *st.Val
			if st.ShareWith != "" {
				stored[st.ShareWith] = *st.Val
			}
		}
	}
	firstParseBad := ""
	if p.Shape == "parse-parse" || p.Shape == "parse-delim-parse" || p.Shape == "parse-parse-defini" || p.Shape == "parse-same-parse" {
		// what the first ParseArgs (empty command line, environment Env0) leaves in the fields
		env1 := map[string]string{}
		for k, val := range p.Env0 {
			env1[k] = string(val)
		}
		for _, oi := range optInfos(d) {
			if isFuncKind(oi.O.Kind) {
				continue
			}
			var cli1 map[string][]string
			if p.Shape == "parse-same-parse" {
				cli1 = cli // the first parse sees the same command line
			}
			src := c05Model(oi, d, cli1, nil, env1)
			if p.Shape == "parse-delim-parse" && oi.O.Env != "" {
				// during the first parse the variable name is spelt with the "+" delimiter
				key1 := strings.Join(append(append([]string{}, oi.EnvNS...), oi.O.Env), "+")
				e1 := map[string]string{}
				if val, ok := env1[key1]; ok {
					e1[oi.EnvFull] = val
				}
				src = c05Model(oi, d, nil, nil, e1)
			}
			if src.name == "stored" {
				if isSliceKind(oi.O.Kind) || isMapKind(oi.O.Kind) {
					if _, ok := stored[oi.Path]; !ok {
						stored[oi.Path] = V{}
					}
				}
				continue
			}
			val, err := modelApply(oi.O.Kind, src.texts)
			if err == nil && len(oi.O.Choices) > 0 {
				for _, t := range src.texts {
					ok := false
					for _, c := range oi.O.Choices {
						ok = ok || c == t
					}
					if !ok {
						err = fmt.Errorf("not an allowed choice")
					}
				}
			}
			if err != nil {
				firstParseBad = oi.Path
				continue
			}
			stored[oi.Path] = val
		}
	}
	shapeSig := map[string]bool{}
	finish := func() *Verdict {
		// signature: history shape + the cell with most sources present
		best := ""
		for _, c := range sortedKeys(shapeSig) {
			if strings.Count(c, "+") > strings.Count(best, "+") || best == "" {
				best = c
			}
		}
		v.Sig = "C05|" + p.Shape + "|" + best
		return v
	}
	if o.DeclErr != "" {
		v.NotJudged = "declaration rejected"
		return finish()
	}
	if p.Shape == "ini-failparse-parse" {
		for i := 0; i < parseIdx; i++ {
			if o.Ops[i].Op == "parse" && (o.Ops[i].Err != "flags.Error" || o.Ops[i].ErrType != "unknown flag") {
				// it must be rejected in the argument loop, before any default is applied
				v.NotJudged = "the parse meant to fail on its first token did not (IgnoreUnknown / handler)"
				return finish()
			}
		}
	}
	firstRejected := false
	if p.Shape == "parse-parse" || p.Shape == "parse-delim-parse" || p.Shape == "parse-parse-defini" || p.Shape == "parse-same-parse" {
		for i := 0; i < parseIdx; i++ {
			if o.Ops[i].Op == "parse" && o.Ops[i].Err != "" {
				firstRejected = true
			}
		}
	}
	for i := range o.Ops {
		if ab := abnormal(&o.Ops[i]); ab != "" {
			v.fail("c05:abnormal:"+strings.SplitN(ab, ":", 2)[0], fmt.Sprintf("operation %d (%s) did not return normally: %s", i, o.Ops[i].Op, ab))
			return finish()
		}
	}
	// does the model predict a conversion failure somewhere?
	ois := optInfos(d)
	boundaryOpt := ""
	predictErr := ""
	type exp struct {
		oi   optInfo
		src  c05Source
		want string
	}
	var exps []exp
	for _, oi := range ois {
		src := c05Model(oi, d, cli, ini, env)
		k := oi.O.Kind
		if (p.Shape == "parse-defini" || p.Shape == "parse-parse-defini") && src.name == "ini" {
			// ParseArgs runs before the INI is read: at that moment the env/default
			// text is the winning source and must convert
			early := c05Model(oi, d, cli, nil, env)
			if ok, boundary := sourceConverts(oi, early); !ok {
				if boundary {
					boundaryOpt = oi.Path
				} else if predictErr == "" {
					predictErr = fmt.Sprintf("%s from %s %q (applied by ParseArgs before the INI was read)", oi.Path, early.name, early.texts)
				}
			}
		}
		if ok, boundary := sourceConverts(oi, src); !ok {
			if boundary {
				boundaryOpt = oi.Path
			} else if predictErr == "" {
				predictErr = fmt.Sprintf("%s from %s %q", oi.Path, src.name, src.texts)
			}
			continue
		}
		if isFuncKind(k) {
			exps = append(exps, exp{oi, src, ""})
			continue
		}
		var want string
		if src.name == "stored" {
			sv, ok := stored[oi.Path]
			if !ok {
				sv = zeroV(k)
			}
			want = dumpV(k, sv)
		} else {
			val, err := modelApply(k, src.texts)
			if err == nil && len(oi.O.Choices) > 0 {
				for _, t := range src.texts {
					ok := false
					for _, c := range oi.O.Choices {
						ok = ok || c == t
					}
					if !ok {
						err = fmt.Errorf("not an allowed choice")
					}
				}
			}
			if err != nil {
				boundary := false
				for _, t := range src.texts {
					if t == "" || (isMapKind(k) && (!strings.Contains(t, ":") || strings.HasSuffix(t, ":") || strings.HasPrefix(t, ":"))) {
						boundary = true // whether an empty text converts is C11's business
					}
				}
				if boundary {
					boundaryOpt = oi.Path
				} else if predictErr == "" {
					predictErr = fmt.Sprintf("%s from %s %q", oi.Path, src.name, src.texts)
				}
				continue
			}
			want = dumpV(k, val)
		}
		exps = append(exps, exp{oi, src, want})
	}
	pr := &o.Ops[parseIdx]
	ir := (*OpResult)(nil)
	for i := range o.Ops {
		if o.Ops[i].Op == "iniread" {
			ir = &o.Ops[i]
		}
	}
	failedIni := false
	if p.Shape == "failini-parse" && ir != nil && ir.Err != "" {
		// the read was meant to fail on its last line; what it applied before is
		// allowed to stand or to be discarded, see below
		failedIni = true
		ok := *ir
		ok.Err = ""
		ir = &ok
	}
	if predictErr == "" && boundaryOpt != "" {
		v.NotJudged = "winning source is the empty text for a non-string kind (conversion boundary)"
		return finish()
	}
	// a reused parser whose first ParseArgs met an unconvertible source (or was
	// rejected): what it left in the fields is not modelled - but if the judged
	// ParseArgs itself has an unconvertible winning source, that must surface
	// whatever happened before
	if predictErr == "" && firstParseBad != "" {
		v.NotJudged = "first parse of a reused parser has an unconvertible source"
		return finish()
	}
	if predictErr == "" && firstRejected {
		v.NotJudged = "first parse of a reused parser rejected"
		return finish()
	}
	if predictErr != "" {
		// an unconvertible text in the winning source must surface as an error
		if pr.Err == "" && (ir == nil || ir.Err == "") {
			v.fail("c05:unconvertible-source-accepted", fmt.Sprintf("the winning source of %s does not convert, yet neither ParseArgs nor the INI read returned an error (shape %s, env=%v, ini=%q, argv=%q)", predictErr, p.Shape, env, p.iniText(), p.Plan.argv()))
		} else {
			v.NotJudged = "model predicts a conversion failure (error was returned)"
		}
		return finish()
	}
	if failedIni && pr.Err != "" {
		// after a failed read the entries it did not get to apply leave their options
		// to the next source; if that one does not convert, the rejection is in order
		for _, oi := range ois {
			if len(ini[oi.Path]) == 0 || len(cli[oi.Path]) > 0 {
				continue
			}
			if ok, _ := sourceConverts(oi, c05Model(oi, d, cli, nil, env)); !ok {
				v.NotJudged = "after the failed INI read an unconvertible lower source may legitimately be applied"
				return finish()
			}
		}
	}
	if pr.Err != "" || (ir != nil && ir.Err != "") {
		// every winning source converts (per the model), yet something was rejected:
		// is it the command line itself (generator's business) or a source?
		s3 := s2
		s3.World.Env = map[string]BStr{}
		var ops3 []Op
		for _, op := range s2.Ops {
			switch op.Kind {
			case "setenv", "unsetenv", "iniread":
				continue
			}
			ops3 = append(ops3, op)
		}
		s3.Ops = ops3
		tw := Execute(&s3, nil)
		v.Evals++
		twOK := tw.HarnessPanic == ""
		for i := range tw.Ops {
			if tw.Ops[i].Op == "parse" && i == len(tw.Ops)-1 && (tw.Ops[i].Err != "" || abnormal(&tw.Ops[i]) != "") {
				twOK = false
			}
		}
		if twOK && p.Shape != "ini-failparse-parse" {
			bad := pr
			if pr.Err == "" {
				bad = ir
			}
			v.failAttr("C05", "c05:valid-source-rejected", fmt.Sprintf("the command line alone is accepted and every winning source converts, yet with the environment / INI present the history is rejected: %s/%s %q\nshape=%s env=%v ini=%q argv=%q",
				bad.Err, bad.ErrType, clip(string(bad.Msg), 200), p.Shape, env, p.iniText(), p.Plan.argv()), map[string]string{"shape": p.Shape})
			return finish()
		}
		v.NotJudged = "history rejected"
		msg := pr.Msg
		if pr.Err == "" {
			msg = ir.Msg
		}
		v.Msg = fmt.Sprintf("rejected: %s argv=%q ini=%q", msg, p.Plan.argv(), p.iniText())
		v.stat("probe.history-rejected")
		return finish()
	}
	final := valuesMap(o.Ops[len(o.Ops)-1].Values)
	nontrivial := false
	for _, e := range exps {
		oi := e.oi
		k := oi.O.Kind
		// which sources are present for this option
		var present []string
		if len(cli[oi.Path]) > 0 {
			present = append(present, "cli")
		}
		if len(ini[oi.Path]) > 0 {
			present = append(present, "ini")
		}
		if oi.O.Env != "" {
			if _, ok := env[envFullOf(d, oi)]; ok {
				present = append(present, "env")
			}
		}
		if len(oi.O.Default) > 0 {
			present = append(present, "default")
		}
		if _, ok := stored[oi.Path]; ok {
			present = append(present, "stored")
		}
		kclass := "scalar"
		switch {
		case isFuncKind(k):
			kclass = "func"
		case isSliceKind(k):
			kclass = "slice"
		case isMapKind(k):
			kclass = "map"
		case isPtrKind(k):
			kclass = "ptr"
		}
		shapeSig[kclass+":"+strings.Join(present, "+")] = true
		v.stat("cell." + p.Shape + "|" + kclass + "|" + strings.Join(present, "+"))
		if len(present) >= 2 {
			nontrivial = true
		}
		attrs := map[string]string{"kind": k, "kclass": kclass, "winner": e.src.name, "present": strings.Join(present, "+"), "shape": p.Shape,
			"n_texts": fmt.Sprint(len(e.src.texts))}
		if isFuncKind(k) {
			// callbacks: judged only when the calls of a lower-ranked source cannot
			// already have happened before the winner was known
			if strings.HasPrefix(k, "func()") {
				continue
			}
			has := map[string]bool{}
			for _, s := range present {
				has[s] = true
			}
			if p.Shape == "parse-parse" || p.Shape == "parse-delim-parse" || p.Shape == "ini-parse-defini" || p.Shape == "failini-parse" || p.Shape == "parse-parse-defini" || p.Shape == "parse-cfgcallback" || p.Shape == "parse-same-parse" {
				continue // an earlier operation already ran the callbacks for its sources
			}
			if has["cli"] && has["ini"] {
				continue // the INI read already ran the callback before the command line was seen
			}
			if p.Shape == "parse-defini" && has["ini"] && (has["env"] || has["default"]) {
				continue // ParseArgs already ran it for the env/default value
			}
			ak := k[5:strings.Index(k, ")")]
			var want []string
			bad := false
			for _, t := range e.src.texts {
				val, err := plainToV(ak, t)
				if err != nil {
					bad = true
					break
				}
				want = append(want, oi.Path+"("+dumpV(ak, val)+")")
			}
			if bad {
				continue
			}
			var got []string
			for _, r := range o.Ops {
				for _, c := range r.Calls {
					if c.Kind == "callback" && strings.HasPrefix(string(c.Who), oi.Path+"(") {
						got = append(got, string(c.Who))
					}
				}
			}
			if strings.Join(got, "\n") != strings.Join(want, "\n") {
				v.failAttr("C05", "c05:callback-calls", fmt.Sprintf("callback option %s: sources present {%s}, winner %s %q: expected calls %q, got %q\nshape=%s env=%v ini=%q argv=%q",
					oi.Path, strings.Join(present, ","), e.src.name, e.src.texts, want, got, p.Shape, env, p.iniText(), p.Plan.argv()), attrs)
			}
			continue
		}
		got := final[oi.Path]
		if got != e.want && failedIni && e.src.name == "ini" {
			// after a failed read either the entries it had applied count, or none of them
			alt := c05Model(oi, d, cli, nil, env)
			altWant := ""
			if alt.name == "stored" {
				sv, ok := stored[oi.Path]
				if !ok {
					sv = zeroV(k)
				}
				altWant = dumpV(k, sv)
			} else if val, err := modelApply(k, alt.texts); err == nil {
				altWant = dumpV(k, val)
			} else {
				continue
			}
			if got == altWant {
				continue
			}
			v.failAttr("C05", "c05:precedence", fmt.Sprintf("option %s (%s): the INI read failed on a later line; the value must be what the file gave (%s) or what the next source gives (%s %q: %s), but it is %s\nshape=%s env=%v ini=%q argv=%q",
				oi.Path, k, clip(e.want, 200), alt.name, alt.texts, clip(altWant, 200), clip(got, 200), p.Shape, env, p.iniText(), p.Plan.argv()), attrs)
			continue
		}
		if got != e.want {
			v.failAttr("C05", "c05:precedence", fmt.Sprintf("option %s (%s): sources present {%s}; the highest-ranked one is %s %q, so the value must be %s, but it is %s\nshape=%s env=%v ini=%q argv=%q stored=%v",
				oi.Path, k, strings.Join(present, ","), e.src.name, e.src.texts, clip(e.want, 300), clip(got, 300), p.Shape, env, p.iniText(), p.Plan.argv(), mustJSON(stored[oi.Path])), attrs)
		}
	}
	v.NonTrivial = nontrivial
	return finish()
}

func (propC05) Reductions(sc *Scenario) []func(*Scenario) bool {
	var out []func(*Scenario) bool
	p := sc.C05
	if p == nil {
		return nil
	}
	for i := range p.Stores {
		i := i
		out = append(out, func(s *Scenario) bool {
			if i >= len(s.C05.Stores) {
				return false
			}
			s.C05.Stores = append(s.C05.Stores[:i:i], s.C05.Stores[i+1:]...)
			return true
		})
	}
	for i := range p.Ini {
		i := i
		out = append(out, func(s *Scenario) bool {
			if i >= len(s.C05.Ini) {
				return false
			}
			s.C05.Ini = append(s.C05.Ini[:i:i], s.C05.Ini[i+1:]...)
			return true
		})
	}
	for i := range p.EnvMid {
		i := i
		out = append(out, func(s *Scenario) bool {
			if i >= len(s.C05.EnvMid) {
				return false
			}
			s.C05.EnvMid = append(s.C05.EnvMid[:i:i], s.C05.EnvMid[i+1:]...)
			return true
		})
	}
	for _, k := range sortedKeys(p.Env0) {
		k := k
		out = append(out, func(s *Scenario) bool {
			if _, ok := s.C05.Env0[k]; !ok {
				return false
			}
			delete(s.C05.Env0, k)
			return true
		})
	}
	if p.Shape != "parse" {
		out = append(out, func(s *Scenario) bool {
			if len(s.C05.Ini) > 0 {
				return false
			}
			s.C05.Shape = "parse"
			return true
		})
	}
	if p.Plan != nil {
		for i := range p.Plan.Toks {
			i := i
			out = append(out, func(s *Scenario) bool {
				q := s.C05.Plan
				if q == nil || i >= len(q.Toks) {
					return false
				}
				t := q.Toks[i]
				lo, hi := i, i+1
				switch t.Role {
				case "cmd", "val":
					return false
				case "optname":
					if i+1 < len(q.Toks) && q.Toks[i+1].Role == "val" {
						hi = i + 2
					}
				}
				q.Toks = append(q.Toks[:lo:lo], q.Toks[hi:]...)
				return true
			})
		}
		// drop the command words altogether (plan at root level)
		out = append(out, func(s *Scenario) bool {
			q := s.C05.Plan
			if len(q.Chain) == 0 {
				return false
			}
			var keep []PTok
			for _, t := range q.Toks {
				if t.Role != "cmd" && t.Level == 0 {
					keep = append(keep, t)
				}
			}
			q.Toks, q.Chain = keep, nil
			return true
		})
	}
	return out
}
