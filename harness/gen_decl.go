package main

import (
	"fmt"
	"strconv"
	"strings"

	flags "github.com/jessevdk/go-flags"
)

// parser option bits, by their exported names
const (
	optHelpFlag           = uint(flags.HelpFlag)
	optPassDoubleDash     = uint(flags.PassDoubleDash)
	optIgnoreUnknown      = uint(flags.IgnoreUnknown)
	optPrintErrors        = uint(flags.PrintErrors)
	optPassAfterNonOption = uint(flags.PassAfterNonOption)
	iniIncludeDefaults    = uint(flags.IniIncludeDefaults)
	iniCommentDefaults    = uint(flags.IniCommentDefaults)
	iniIncludeComments    = uint(flags.IniIncludeComments)
)

type DeclCfg struct {
	Kinds        []string // pool of option kinds
	MinOpts      int
	MaxOpts      int // per group
	MaxGroups    int // extra top-level groups
	MaxSub       int // nested groups per group
	MaxCmds      int
	MaxDepth     int
	Exec         bool // commands are executable nodes
	Env          bool
	Defaults     bool
	Required     bool
	Choices      bool
	Optional     bool
	Hidden       bool
	NoIni        bool
	IniName      bool
	Base         bool
	Pos          bool
	Namespaces   bool
	Init         bool // store initial values
	InitMulti    bool // initial maps/slices with several entries
	Descriptions bool
	Aliases      bool
	ShortOnly    bool // some options with only a short name
	MultiByte    bool // multi-byte short names
	ParserOpts   []uint
	Handlers     bool
	DottedCmds   bool // some command names contain a '.'
	MultiLine    bool // some descriptions span several lines
	CapCmds      bool // some command names contain upper-case letters
	DupFields    bool // a nested group may reuse a field name of its parent group
	PtrGroups    bool // nested groups declared as nil pointers to their struct
	DupTags      bool // single-valued tags are sometimes given twice (the last one counts)
	ManyAliases  bool // commands with several aliases sharing a prefix
	BaseMulti    bool // base: tags also on slices and maps of integers
	BigGroup     bool // now and then one group with more than 100 options
	CaseLongs    bool // long names that differ only in case
	Colliding    bool // rarely: two groups with the same name, or a group named like a command
}

var (
	longWords  = []string{"port", "host", "verbose", "name", "level", "tag", "path", "mode", "count", "size", "user", "zone", "rate", "key", "depth", "color", "limit", "proto", "addr", "debug"}
	groupNames = []string{"Net", "Storage Settings", "Adv", "Misc Opts", "Tuning", "IO", "Auth Group", "Cache"}
	cmdNames   = []string{"add", "rm", "remote", "show", "cfg", "run", "sync", "list", "push", "init"}
	shortPool  = []string{"a", "b", "c", "d", "e", "f", "g", "i", "j", "k", "l", "m", "n", "o", "p", "q", "r", "s", "t", "u", "v", "w", "x", "y", "z", "A", "B", "C", "D", "E", "F", "G", "K", "L", "M", "N", "P", "Q", "R", "S", "T", "V", "X", "Z"}
	mbShort    = []string{"é", "ß", "世", "ω"}
)

type declGen struct {
	r      *Rng
	cfg    *DeclCfg
	nOpt   int
	shorts []string
	groups []string
	cmds   []string
	nAlias int
}

func (g *declGen) takeShort() string {
	if len(g.shorts) == 0 {
		return ""
	}
	i := g.r.Intn(len(g.shorts))
	s := g.shorts[i]
	g.shorts = append(g.shorts[:i], g.shorts[i+1:]...)
	return s
}

func (g *declGen) takeGroup() string {
	if len(g.groups) == 0 {
		g.nOpt++
		return fmt.Sprintf("Group %d", g.nOpt)
	}
	i := g.r.Intn(len(g.groups))
	s := g.groups[i]
	g.groups = append(g.groups[:i], g.groups[i+1:]...)
	return s
}

func (g *declGen) takeCmd() string {
	if len(g.cmds) == 0 {
		g.nOpt++
		return fmt.Sprintf("cmd%d", g.nOpt)
	}
	i := g.r.Intn(len(g.cmds))
	s := g.cmds[i]
	g.cmds = append(g.cmds[:i], g.cmds[i+1:]...)
	return s
}

func (g *declGen) opt() *OptSpec {
	r, cfg := g.r, g.cfg
	g.nOpt++
	n := g.nOpt
	kind := r.Pick(cfg.Kinds)
	w := r.Pick(longWords)
	o := &OptSpec{Field: "F" + strings.Title(w) + strconv.Itoa(n), Kind: kind}
	o.Long = w + strconv.Itoa(n)
	if r.Chance(2, 3) {
		o.Short = g.takeShort()
	}
	if cfg.ShortOnly && o.Short != "" && r.Chance(1, 5) {
		o.Long = ""
	}
	if cfg.Descriptions && r.Chance(3, 4) {
		o.Desc = "The " + w + " setting number " + strconv.Itoa(n)
		if cfg.MultiLine && r.Chance(1, 8) {
			o.Desc += r.Pick([]string{"\nsecond line of the description", "\n\nx = 1", "\n[Net]", "\r\nsecond = line"})
		}
		if r.Chance(1, 6) {
			o.Desc += " with a rather long explanation that will need to be wrapped over several lines of the help output because it goes on"
		}
	}
	flag := isBoolFlag(kind)
	fn := isFuncKind(kind)
	multi := isSliceKind(kind) || isMapKind(kind)
	if cfg.Defaults && !flag && !fn && r.Chance(1, 3) {
		nd := 1
		if multi {
			nd = r.Range(1, 3)
		}
		for i := 0; i < nd; i++ {
			o.Default = append(o.Default, BStr(g.cliText(kind, i)))
		}
	}
	if cfg.Env && !fn && r.Chance(1, 3) {
		o.Env = "E_" + strings.ToUpper(w) + strconv.Itoa(n)
		if multi && r.Chance(2, 3) {
			o.EnvDelim = r.Pick([]string{",", ";", "|"})
		}
	}
	if cfg.Optional && !flag && !fn && r.Chance(1, 6) {
		o.Optional = true
		o.OptionalValue = []BStr{BStr(g.cliText(kind, 7))}
	}
	if cfg.Required && r.Chance(1, 6) && len(o.Default) == 0 {
		o.Required = true
	}
	if cfg.Choices && (kind == "string" || kind == "[]string") && r.Chance(1, 4) {
		o.Choices = []string{"red", "green", "blue"}
		switch r.Intn(5) {
		case 0: // a repeated choice tag is accepted by the library
			o.Choices = []string{"red", "green", "red", "blue", "green"}
		case 1:
			o.Choices = []string{"blue", "red", "green", "amber", "cyan"}
		case 2:
			o.Choices = []string{"red"}
		}
		o.Default = nil
		o.OptionalValue = nil
		o.Optional = false
	}
	if cfg.Hidden && r.Chance(1, 10) {
		o.Hidden = true
	}
	if cfg.NoIni && r.Chance(1, 12) {
		o.NoIni = true
		o.NoIniText = r.Pick([]string{"yes", "true", "false", "0", "no", "1"}) // any non-empty value means no-ini
	}
	if cfg.IniName && r.Chance(1, 6) {
		o.IniName = "ini_" + w + strconv.Itoa(n)
	}
	if cfg.Base && (!multi || cfg.BaseMulti) && !fn && (strings.Contains(baseKind(kind), "int") || (cfg.BaseMulti && isMapKind(kind) && strings.Contains(mapKeyKind(kind), "int"))) && r.Chance(1, 4) {
		o.Base = []int{2, 8, 16, 36}[r.Intn(4)]
		o.Default = nil
		o.OptionalValue = nil
		o.Optional = false
		if cfg.Defaults && cfg.BaseMulti && r.Chance(1, 2) {
			// a default tag is read in the option's base like any other text
			d := r.Pick([]string{"11", "10", "1"}) // (small in every base, fits every integer type)
			if isMapKind(kind) {
				if strings.Contains(mapKeyKind(kind), "int") {
					d = d + ":" + genPlainText(r, elemKind(kind))
				} else {
					d = "k:" + d
				}
			}
			o.Default = []BStr{BStr(d)}
		}
	}
	if r.Chance(1, 8) && !flag {
		o.ValueName = strings.ToUpper(w)
	}
	if cfg.DupTags && o.Long != "" && o.Desc != "" && r.Chance(1, 8) {
		o.DupTags = true
	}
	if cfg.Init && !fn && r.Chance(1, 3) {
		v := genStoreValue(r, kind, false)
		if cfg.InitMulti && multi {
			v = g.multiInit(kind)
		}
		o.Init = &v
	}
	return o
}

// cliText: a valid command-line argument text for kind; for maps "key:value".
func (g *declGen) cliText(kind string, i int) string {
	if isMapKind(kind) {
		return genPlainText(g.r, mapKeyKind(kind)) + ":" + genPlainText(g.r, elemKind(kind))
	}
	return genPlainText(g.r, kind)
}

func (g *declGen) multiInit(kind string) V {
	r := g.r
	n := r.Range(2, 4)
	v := V{}
	seen := map[string]bool{}
	for i := 0; i < n; i++ {
		if isMapKind(kind) {
			kt := genPlainText(r, mapKeyKind(kind))
			if seen[kt] {
				continue
			}
			seen[kt] = true
			kv, _ := plainToV(mapKeyKind(kind), kt)
			v.K = append(v.K, kv)
		}
		ev, _ := plainToV(elemKind(kind), genPlainText(r, elemKind(kind)))
		v.L = append(v.L, ev)
	}
	return v
}

func (g *declGen) group(name string, depth int) *GroupSpec {
	r, cfg := g.r, g.cfg
	gs := &GroupSpec{Name: name}
	n := r.Range(cfg.MinOpts, cfg.MaxOpts)
	for i := 0; i < n; i++ {
		gs.Opts = append(gs.Opts, g.opt())
	}
	if cfg.Namespaces && r.Chance(1, 3) {
		gs.Namespace = r.Pick([]string{"ns", "net", "x", "deep"})
	}
	if cfg.Namespaces && cfg.Env && r.Chance(1, 3) {
		gs.EnvNamespace = r.Pick([]string{"APP", "NS", "X"})
	}
	if cfg.Hidden && r.Chance(1, 12) {
		gs.Hidden = true
	}
	if depth < 2 {
		ns := r.Range(0, cfg.MaxSub)
		if r.Chance(1, 2) {
			ns = 0
		}
		for i := 0; i < ns; i++ {
			sub := g.group(g.takeGroup(), depth+1)
			if cfg.DupFields && len(sub.Opts) > 0 && len(gs.Opts) > 0 && r.Chance(1, 3) {
				// the same Go field name in a group and in its nested group
				sub.Opts[0].Field = gs.Opts[r.Intn(len(gs.Opts))].Field
			}
			if cfg.PtrGroups && len(sub.Opts) > 0 && r.Fork("ptrgroup").Chance(1, 3) {
				sub.ViaPtr = true
				sub.PtrSet = r.Fork("ptrset").Bool()
			}
			gs.Sub = append(gs.Sub, sub)
		}
	}
	return gs
}

func (g *declGen) positionals() ([]*ArgSpec, bool) {
	r := g.r
	var out []*ArgSpec
	n := r.Range(1, 2)
	for i := 0; i < n; i++ {
		a := &ArgSpec{Field: fmt.Sprintf("P%d", i), Name: r.Pick([]string{"", "SRC", "FILE", "dst", "ÜBER", "ファイル", "naïve-name"}), Kind: r.Pick([]string{"string", "string", "int"})}
		if r.Chance(1, 3) {
			a.Required = "yes"
		}
		if r.Chance(1, 2) {
			a.Desc = "positional number " + strconv.Itoa(i)
		}
		out = append(out, a)
	}
	if r.Chance(1, 2) {
		a := &ArgSpec{Field: "Rest", Kind: "[]string", Name: "rest"}
		switch r.Intn(6) {
		case 0:
			a.Required = "1"
		case 1:
			a.Required = "1-2"
		case 2:
			a.Required = "2"
		case 3:
			a.Required = "2-3"
		}
		out = append(out, a)
	}
	return out, r.Chance(1, 4)
}

func (g *declGen) cmd(depth int, tagOK bool) *CmdSpec {
	r, cfg := g.r, g.cfg
	c := &CmdSpec{Name: g.takeCmd(), Exec: cfg.Exec && r.Chance(5, 6)}
	if !cfg.Exec && r.Chance(1, 2) {
		c.Exec = false
	}
	if !c.Exec && tagOK && r.Chance(1, 2) {
		c.ViaTag = true // declared by a struct tag inside the parent's struct
	}
	if c.Exec && cfg.Descriptions && r.Chance(1, 5) {
		c.Usage = "[" + c.Name + "-args...]"
	}
	if cfg.Namespaces && r.Chance(1, 6) {
		c.Namespace = r.Pick([]string{"cns", "c", "cmdns"})
	}
	if cfg.Namespaces && cfg.Env && r.Chance(1, 5) {
		c.EnvNamespace = r.Pick([]string{"CMD", "C", "SERVE"})
	}
	if cfg.CapCmds && r.Chance(1, 5) {
		c.Name = strings.ToUpper(c.Name[:1]) + c.Name[1:]
	}
	if cfg.ManyAliases && r.Chance(1, 4) {
		g.nAlias++
		pre := r.Pick([]string{"d", "x", "q"})
		c.Aliases = append(c.Aliases, fmt.Sprintf("%sel%d", pre, g.nAlias), fmt.Sprintf("%selete%d", pre, g.nAlias), fmt.Sprintf("%srop%d", pre, g.nAlias))
	}
	if cfg.DottedCmds && r.Chance(1, 6) {
		c.Name = r.Pick([]string{"v1.", "net.", "x."}) + c.Name
	}
	if cfg.Descriptions {
		c.Short = "The " + c.Name + " command"
		if r.Chance(1, 3) {
			c.Long = "The " + c.Name + " command does things with `items' and more"
			if cfg.MultiLine && r.Chance(1, 2) {
				c.Long += "\nsecond line of the text\nInclude = looks like an entry\n[and like a header]"
			}
		}
	}
	if cfg.Aliases && r.Chance(1, 3) {
		g.nAlias++
		c.Aliases = append(c.Aliases, fmt.Sprintf("%s%d", c.Name[:1], g.nAlias))
	}
	if cfg.Hidden && r.Chance(1, 10) {
		c.Hidden = true
	}
	if r.Chance(2, 3) {
		c.Own = g.group(c.Name+" options", 2)
		c.Own.Namespace, c.Own.EnvNamespace, c.Own.Hidden = "", "", false
	}
	if r.Chance(1, 4) {
		c.Groups = append(c.Groups, g.group(g.takeGroup(), 1))
	}
	if depth < cfg.MaxDepth && r.Chance(1, 3) {
		n := r.Range(1, 2)
		for i := 0; i < n; i++ {
			c.Commands = append(c.Commands, g.cmd(depth+1, c.ViaTag))
		}
		c.SubOptional = r.Chance(1, 3)
	}
	if cfg.Pos && len(c.Commands) == 0 && r.Chance(1, 3) {
		if c.Own == nil {
			c.Own = &GroupSpec{Name: c.Name + " options"}
		}
		c.Own.Pos, c.Own.PosRequired = g.positionals()
	}
	return c
}

func genDecl(r *Rng, cfg *DeclCfg) *DeclSpec {
	g := &declGen{r: r, cfg: cfg}
	g.shorts = append(g.shorts, shortPool...)
	if cfg.MultiByte {
		g.shorts = append(g.shorts, mbShort...)
	}
	g.groups = append(g.groups, groupNames...)
	g.cmds = append(g.cmds, cmdNames...)
	d := &DeclSpec{App: "simapp"}
	if len(cfg.ParserOpts) > 0 {
		d.Options = cfg.ParserOpts[r.Intn(len(cfg.ParserOpts))]
	}
	d.Root = g.group("Application Options", 0)
	d.Root.Namespace, d.Root.EnvNamespace, d.Root.Hidden = "", "", false
	if cfg.BigGroup && r.Chance(1, 150) {
		big := &GroupSpec{Name: "Big"}
		for i := 0; i < 115; i++ {
			g.nOpt++
			big.Opts = append(big.Opts, &OptSpec{Field: fmt.Sprintf("FBig%d", g.nOpt), Kind: r.Pick([]string{"int", "string", "bool"}), Long: fmt.Sprintf("big%03d", g.nOpt), Desc: "one of many"})
		}
		d.Groups = append(d.Groups, big)
	}
	if cfg.CaseLongs && r.Chance(1, 6) && len(d.Root.Opts) > 0 {
		// the same long name again in other case (a different option to the library)
		o := d.Root.Opts[0]
		if o.Long != "" {
			g.nOpt++
			d.Root.Opts = append(d.Root.Opts, &OptSpec{Field: fmt.Sprintf("FCase%d", g.nOpt), Kind: o.Kind, Long: strings.ToUpper(o.Long[:1]) + o.Long[1:], Desc: o.Desc})
		}
	}
	d.UseNewParser = r.Chance(1, 3)
	ng := r.Range(0, cfg.MaxGroups)
	for i := 0; i < ng; i++ {
		d.Groups = append(d.Groups, g.group(g.takeGroup(), 0))
	}
	nc := r.Range(0, cfg.MaxCmds)
	for i := 0; i < nc; i++ {
		d.Commands = append(d.Commands, g.cmd(1, true))
	}
	if nc > 0 {
		d.SubOptional = r.Chance(1, 3)
	}
	if cfg.Pos && nc == 0 && r.Chance(1, 4) {
		d.Root.Pos, d.Root.PosRequired = g.positionals()
	}
	// (no namespace on the parser itself: the default group created by NewParser is
	// attached to the parser directly and does not see it, while groups added with
	// AddGroup do; the field is an accident of embedding, not a documented feature)
	if cfg.Namespaces && r.Chance(1, 4) {
		d.NSDelim = r.Pick([]string{"-", ":", "__"})
	}
	if cfg.Namespaces && cfg.Env && r.Chance(1, 4) {
		d.EnvNSDelim = r.Pick([]string{"__", ".", "-"})
	}
	if cfg.Colliding && r.Chance(1, 40) {
		// declarations the library accepts although their INI section names collide
		var all []*GroupSpec
		d.eachGroupSpec(func(g *GroupSpec, cp []string, own bool) {
			if !own && g != d.Root {
				all = append(all, g)
			}
		})
		var renamed *GroupSpec
		old := ""
		if len(all) >= 2 && r.Bool() {
			renamed, old = all[len(all)-1], all[len(all)-1].Name
			renamed.Name = all[0].Name
		} else if len(d.Groups) > 0 && len(d.Commands) > 0 {
			n := d.Commands[0].Name
			renamed, old = d.Groups[0], d.Groups[0].Name
			renamed.Name = strings.ToUpper(n[:1]) + n[1:]
		}
		if renamed != nil {
			// the harness identifies options by path: keep those unique
			seen := map[string]bool{}
			for _, oi := range optInfos(d) {
				if seen[oi.Path] {
					renamed.Name = old
					break
				}
				seen[oi.Path] = true
			}
		}
	}
	if cfg.Descriptions {
		d.ShortDesc = "a simulated application"
		if r.Chance(1, 2) {
			d.LongDesc = "This application exists only inside a simulator.\nIt has `quoted' words."
		}
	}
	return d
}

// ---- walking the spec ------------------------------------------------------

type optRef struct {
	O       *OptSpec
	G       *GroupSpec
	CmdPath []string
}

func (d *DeclSpec) eachGroupSpec(f func(g *GroupSpec, cmdPath []string, own bool)) {
	var recG func(g *GroupSpec, cp []string, own bool)
	recG = func(g *GroupSpec, cp []string, own bool) {
		f(g, cp, own)
		for _, s := range g.Sub {
			recG(s, cp, false)
		}
	}
	if d.Root != nil {
		recG(d.Root, nil, false)
	}
	for _, g := range d.Groups {
		recG(g, nil, false)
	}
	var recC func(cs []*CmdSpec, path []string)
	recC = func(cs []*CmdSpec, path []string) {
		for _, c := range cs {
			p := append(append([]string{}, path...), c.Name)
			if c.Own != nil {
				recG(c.Own, p, !c.Exec)
			}
			for _, g := range c.Groups {
				recG(g, p, false)
			}
			recC(c.Commands, p)
		}
	}
	recC(d.Commands, nil)
}

func (d *DeclSpec) allOpts() []optRef {
	var out []optRef
	d.eachGroupSpec(func(g *GroupSpec, cp []string, own bool) {
		for _, o := range g.Opts {
			out = append(out, optRef{o, g, cp})
		}
	})
	return out
}
