package main

import (
	"strings"
)

// The injected-fault catalogue shared by C09 and C04: one fault applied to a
// valid plan. Expect is the documented ErrorType for that cause and is set
// only where the outcome is unambiguous without a reference parser (the
// parse is left to right and stops at the first error, so the fault is placed
// where every earlier token is a completely processed valid occurrence, or
// it is a whole-item deletion detected after the loop).

type ArgFault struct {
	Kind   string       `json:"kind"`
	Pos    int          `json:"pos"`
	Text   string       `json:"text,omitempty"`
	Opt    string       `json:"opt,omitempty"`
	Expect string       `json:"expect,omitempty"` // flags.ErrorType name, "" = not judged
	EnvKey string       `json:"env_key,omitempty"`
	EnvVal string       `json:"env_val,omitempty"`
	Callee *CalleeFault `json:"callee,omitempty"`
	Note   string       `json:"note,omitempty"`
}

func looksLikeOption(arg string) bool {
	if len(arg) > 1 && arg[0] == '-' && arg[1] != '-' {
		return true
	}
	return len(arg) > 2 && arg[0] == '-' && arg[1] == '-' && arg[2] != '-'
}

// safeInsertPositions: indices where a new option token is processed as an
// option on its own.
func safeInsertPositions(d *DeclSpec, p *Plan) []int {
	var out []int
	limit := len(p.Toks)
	for i, t := range p.Toks {
		if t.Role == "ddash" {
			limit = i
			break
		}
		if d.Options&optPassAfterNonOption != 0 && (t.Role == "pos" || t.Role == "rest") {
			limit = i
			break
		}
	}
	for i := 0; i <= limit; i++ {
		if i > 0 && p.Toks[i-1].Role == "optname" {
			continue
		}
		out = append(out, i)
	}
	return out
}

// posDeletionRequired: does the line lack a required positional argument once
// its last positional word is taken away? (Derived from the declaration: the
// innermost command's positional fields, their required marks, and the
// all-required mark of the struct.)
func posDeletionRequired(d *DeclSpec, p *Plan) bool {
	var own *GroupSpec
	if len(p.Chain) == 0 {
		own = d.Root
	} else {
		cs := d.Commands
		var c *CmdSpec
		for _, n := range p.Chain {
			c = findCmd(cs, n)
			if c == nil {
				return false
			}
			cs = c.Commands
		}
		own = c.Own
	}
	if own == nil || len(own.Pos) == 0 {
		return false
	}
	nTok := 0
	for _, t := range p.Toks {
		switch t.Role {
		case "pos":
			nTok++
		case "rest", "raw", "ddash":
			return false // a further word would move up into the freed place
		}
	}
	var scalars []*ArgSpec
	var rest *ArgSpec
	for _, a := range own.Pos {
		if a.Kind == "[]string" {
			rest = a
		} else {
			scalars = append(scalars, a)
		}
	}
	k := nTok - len(scalars)
	if k < 0 || nTok == 0 {
		return false
	}
	if k > 0 {
		if rest == nil {
			return false
		}
		lo, _ := restBounds(rest.Required)
		return k-1 < lo
	}
	if len(scalars) == 0 {
		return false
	}
	last := scalars[len(scalars)-1]
	return own.PosRequired || last.Required != ""
}

func unknownAccepted(d *DeclSpec) bool {
	return d.Options&optIgnoreUnknown != 0 || d.UnknownHandler != ""
}

var faultKinds = []string{"bad-pos-value", "unknown-long", "unknown-short", "unknown-in-cluster", "delete-arg", "bad-value", "bad-quote", "flag-with-arg", "delete-required",
	"delete-required-pos", "delete-cmd", "misspell-cmd", "help", "truncate", "insert-ddash", "env-unconvertible", "callee"}

// genArgFault draws one fault for the plan; ok=false when the drawn kind does
// not apply to this plan.
func genArgFault(r *Rng, d *DeclSpec, p *Plan, twinCalls []Call) (f ArgFault, ok bool) {
	f.Kind = r.Pick(faultKinds)
	ois := map[string]optInfo{}
	for _, oi := range optInfos(d) {
		ois[oi.Path] = oi
	}
	switch f.Kind {
	case "unknown-long", "unknown-short", "help":
		pos := safeInsertPositions(d, p)
		if len(pos) == 0 {
			return f, false
		}
		f.Pos = pos[r.Intn(len(pos))]
		switch f.Kind {
		case "unknown-long":
			f.Text = r.Pick([]string{"--nosuchopt", "--nosuchopt=1", "--zz-top", "--forec"})
			f.Expect = "unknown flag"
		case "unknown-short":
			f.Text = r.Pick([]string{"-?", "-!", "-%", "-@x"}) // (nothing that could be read as a negative number)
			f.Expect = "unknown flag"
		case "help":
			if d.Options&optHelpFlag == 0 {
				return f, false
			}
			f.Text = r.Pick([]string{"-h", "--help"})
			f.Expect = "help"
		}
		if f.Kind != "help" && unknownAccepted(d) {
			f.Expect = ""
			if d.UnknownHandler == "fail" && d.Options&optIgnoreUnknown == 0 {
				f.Expect = "handler error" // the handler's own error comes back (no *flags.Error type is documented for it)
			}
		}
		return f, true
	case "unknown-in-cluster":
		for i, t := range p.Toks {
			if t.Role == "cluster" {
				f.Pos = i
				f.Text = t.Text + "?"
				f.Expect = "unknown flag"
				if unknownAccepted(d) {
					f.Expect = ""
					if d.UnknownHandler == "fail" && d.Options&optIgnoreUnknown == 0 {
						f.Expect = "handler error"
					}
				}
				return f, true
			}
		}
		return f, false
	case "delete-arg":
		var cands []int
		for i, t := range p.Toks {
			if t.Role == "val" && i > 0 && p.Toks[i-1].Role == "optname" {
				cands = append(cands, i)
			}
		}
		if len(cands) == 0 {
			return f, false
		}
		f.Pos = cands[r.Intn(len(cands))]
		t := p.Toks[f.Pos]
		f.Opt = t.Opt
		last := f.Pos == len(p.Toks)-1
		if last {
			f.Expect = "expected argument"
		} else {
			nx := p.Toks[f.Pos+1].Text
			negnum := len(nx) > 1 && nx[0] == '-' && nx[1] >= '0' && nx[1] <= '9'
			if baseKind(t.Kind) != "vv" && (looksLikeOption(nx) && !(isSignedNumeric(t.Kind) && negnum) || (nx == "--" && d.Options&optPassDoubleDash != 0)) {
				f.Expect = "expected argument"
			}
		}
		return f, true
	case "bad-value", "bad-quote":
		var cands []int
		for i, t := range p.Toks {
			if t.Role != "val" && t.Role != "optval" {
				continue
			}
			oi, ok := ois[t.Opt]
			if !ok {
				continue
			}
			if f.Kind == "bad-quote" {
				if !oi.O.NoUnquote {
					cands = append(cands, i)
				}
				continue
			}
			b := baseKind(t.Kind)
			if b == "vv" && t.Role == "val" && len(oi.O.Choices) == 0 {
				cands = append(cands, i) // a value handed over as a word of its own goes past the option's validator
				continue
			}
			if len(oi.O.Choices) > 0 || strings.Contains(b, "int") || strings.Contains(b, "float") || b == "duration" || b == "um" || b == "us" {
				if isFuncKind(t.Kind) && !strings.Contains(t.Kind, "int") {
					continue
				}
				cands = append(cands, i)
			}
		}
		if len(cands) == 0 {
			return f, false
		}
		f.Pos = cands[r.Intn(len(cands))]
		t := p.Toks[f.Pos]
		oi := ois[t.Opt]
		f.Opt = t.Opt
		bad := "x!y"
		f.Expect = "marshal"
		switch {
		case f.Kind == "bad-quote":
			bad = r.Pick([]string{"\"abc", "\"a\\qb\"", "\"", "\"x\"y"})
		case len(oi.O.Choices) > 0:
			bad = "purple"
			f.Expect = "invalid choice"
		case baseKind(t.Kind) == "um" || baseKind(t.Kind) == "us":
			bad = "bad1"
		case baseKind(t.Kind) == "vv":
			bad = "!refused"
			f.Expect = "expected argument"
		case (t.Kind == "int8" || t.Kind == "uint8" || t.Kind == "uint16") && oi.O.Base == 0 && r.Bool():
			bad = map[string]string{"int8": "300", "uint8": "256", "uint16": "70000"}[t.Kind] // a number the type cannot hold
		case isMapKind(t.Kind):
			if strings.Contains(mapKeyKind(t.Kind), "int") {
				bad = "x!y:v"
			} else {
				bad = "k:x!y"
			}
		}
		f.Text = t.Name + bad
		return f, true
	case "bad-pos-value":
		// a word that must fill an integer positional field does not convert
		var cands []int
		for i, t := range p.Toks {
			if t.Role == "pos" && t.Kind == "int" {
				cands = append(cands, i)
			}
		}
		if len(cands) == 0 {
			return f, false
		}
		f.Pos = cands[r.Intn(len(cands))]
		f.Text = r.Pick([]string{"x!y", "12x", "1.5"})
		f.Expect = "positional conversion" // (no *flags.Error type is documented for it)
		return f, true
	case "flag-with-arg":
		var cands []int
		for i, t := range p.Toks {
			if t.Role == "flag" && isBoolFlag(t.Kind) {
				cands = append(cands, i)
			}
		}
		if len(cands) == 0 {
			return f, false
		}
		f.Pos = cands[r.Intn(len(cands))]
		t := p.Toks[f.Pos]
		if !strings.HasPrefix(t.Text, "--") && len(t.Text) != 2 {
			return f, false // multi-byte short names do not split at '='
		}
		arg := r.Pick([]string{"x", "true", "1", ""})
		f.Text = t.Text + "=" + arg
		f.Expect = "no argument for bool"
		if arg == "x" {
			// were flags to accept boolean arguments, "x" would be an unconvertible value
			f.Expect = "no argument for bool|marshal"
		}
		return f, true
	case "delete-required":
		if len(p.Required) == 0 {
			return f, false
		}
		f.Opt = p.Required[r.Intn(len(p.Required))]
		f.Expect = "required"
		return f, true
	case "delete-required-pos":
		for i := len(p.Toks) - 1; i >= 0; i-- {
			if p.Toks[i].Role == "pos" {
				f.Pos = i
				if posDeletionRequired(d, p) {
					f.Expect = "required"
				}
				return f, true
			}
		}
		return f, false
	case "delete-cmd":
		if len(p.Chain) == 0 {
			return f, false
		}
		if p.NeedCmd {
			f.Expect = "command required"
			// the command word is missing, but further words follow that are not
			// looked at as commands: after a double dash, or an option nobody knows
			// that IgnoreUnknown lets through
			lastWord := ""
			for _, t := range p.Toks {
				if t.Role == "cmd" {
					lastWord = t.Text
				}
			}
			switch x := r.Intn(4); {
			case x == 0 && d.Options&optPassDoubleDash != 0 && lastWord != "":
				f.Text = "-- " + lastWord
				f.Expect = "command required|unknown command"
			case x == 1 && d.Options&optIgnoreUnknown != 0:
				f.Text = "--bogus-zz"
				f.Expect = "command required|unknown command"
			}
		}
		return f, true
	case "misspell-cmd":
		var cands []int
		for i, t := range p.Toks {
			if t.Role == "cmd" {
				cands = append(cands, i)
			}
		}
		if len(cands) == 0 {
			return f, false
		}
		k := r.Intn(len(cands))
		f.Pos = cands[k]
		f.Text = p.Toks[f.Pos].Text + r.Pick([]string{"x", "q", "-"})
		if r.Fork("emptyword").Chance(1, 6) {
			f.Text = "" // the empty word is a word like any other: no command has that name
		}
		// the parent of the k-th command word requires a command?
		need := !d.SubOptional
		cs := d.Commands
		for i := 0; i < k; i++ {
			c := findCmd(cs, p.Chain[i])
			need = !c.SubOptional
			cs = c.Commands
		}
		// under PassAfterNonOption an unknown word legitimately ends option
		// parsing, so a required-option error may come first
		if need && d.Options&optPassAfterNonOption == 0 {
			f.Expect = "unknown command"
			if f.Text == "" {
				// the empty word names no command: "unknown command" and "no command given"
				// are both documented types for that
				f.Expect = "unknown command|command required"
			}
		}
		return f, true
	case "truncate":
		if len(p.Toks) == 0 {
			return f, false
		}
		f.Pos = r.Intn(len(p.Toks))
		return f, true
	case "insert-ddash":
		f.Pos = r.Range(0, len(p.Toks))
		f.Text = "--"
		return f, true
	case "env-unconvertible":
		given := map[string]bool{}
		for _, t := range p.Toks {
			given[t.Opt] = true
		}
		var cands []optInfo
		for _, oi := range optInfos(d) {
			b := baseKind(oi.O.Kind)
			if oi.O.Env != "" && !given[oi.Path] && !isFuncKind(oi.O.Kind) && (strings.Contains(b, "int") || strings.Contains(b, "float") || b == "duration" || len(oi.O.Choices) > 0) {
				cands = append(cands, oi)
			}
		}
		if len(cands) == 0 {
			return f, false
		}
		oi := cands[r.Intn(len(cands))]
		f.Opt = oi.Path
		f.EnvKey = envFullOf(d, oi)
		f.EnvVal = r.Pick([]string{"x!y", "1.2.3", "--", "12x"})
		if isMapKind(oi.O.Kind) {
			f.EnvVal = "k:" + f.EnvVal // (without a colon the value part would be the empty text, a conversion boundary)
		}
		f.Expect = "marshal"
		if len(oi.O.Choices) > 0 {
			// a value that is none of the option's choices is refused wherever it comes from
			f.EnvVal = "zz-not-a-choice"
			f.Expect = "invalid choice"
		}
		return f, true
	case "callee":
		counts := map[string]int{}
		for _, c := range twinCalls {
			counts[c.Kind]++
		}
		var kinds []string
		for _, k := range []string{"callback", "unmarshal", "validate", "execute", "handler"} {
			if counts[k] > 0 {
				kinds = append(kinds, k)
			}
		}
		if len(kinds) == 0 {
			return f, false
		}
		k := r.Pick(kinds)
		f.Callee = &CalleeFault{Kind: k, Nth: r.Intn(counts[k]), ID: 100 + r.Intn(900)}
		if k == "execute" || k == "handler" {
			f.Callee.Form = r.Pick([]string{"", "", "flags:help", "flags:required", "flags:unknown", "wrap:help", "wrap:marshal", "flags:command required", "flags:help-empty", "typed-nil", "errtype:help", "errtype:required", "typed-nil-flags", "uncomparable"})
		}
		if k == "validate" {
			f.Callee.Form = r.Pick([]string{"", "", "typed-nil", "typed-nil-flags", "flags:unknown"})
		}
		if k == "callback" || k == "unmarshal" {
			// what a failing option callback / UnmarshalFlag may hand back
			f.Callee.Form = r.Pick([]string{"", "", "", "typed-nil", "wrap:marshal", "wrap:help", "flags:help", "flags:unknown", "typed-nil-flags"})
		}
		switch k {
		case "callback", "unmarshal":
			f.Expect = "marshal"
			if strings.HasPrefix(f.Callee.Form, "flags:") || f.Callee.Form == "typed-nil-flags" {
				f.Expect = "" // the callee's own *flags.Error: the statement names no type for it
			}
		case "validate":
			f.Expect = "expected argument"
		default:
			f.Expect = "injected" // returned unchanged
		}
		return f, true
	}
	return f, false
}

// envFullOf computes the environment key of an option from the spec.
func envFullOf(d *DeclSpec, target optInfo) string {
	if target.EnvFull != "" || target.O == nil || target.O.Env == "" {
		return target.EnvFull
	}
	for _, oi := range optInfos(d) {
		if oi.O == target.O {
			return oi.EnvFull
		}
	}
	return ""
}

// applyArgFault returns the faulty token list.
func applyArgFault(p *Plan, f ArgFault) []string {
	toks := p.Toks
	var out []string
	switch f.Kind {
	case "unknown-long", "unknown-short", "help", "insert-ddash":
		for i, t := range toks {
			if i == f.Pos {
				out = append(out, f.Text)
			}
			out = append(out, t.Text)
		}
		if f.Pos >= len(toks) {
			out = append(out, f.Text)
		}
	case "unknown-in-cluster", "bad-value", "bad-quote", "flag-with-arg", "misspell-cmd", "bad-pos-value":
		for i, t := range toks {
			if i == f.Pos {
				out = append(out, f.Text)
			} else {
				out = append(out, t.Text)
			}
		}
	case "delete-arg", "delete-required-pos":
		for i, t := range toks {
			if i != f.Pos {
				out = append(out, t.Text)
			}
		}
	case "delete-required":
		for _, t := range toks {
			if t.Opt != f.Opt {
				out = append(out, t.Text)
			}
		}
	case "delete-cmd":
		lastCmd := -1
		for i, t := range toks {
			if t.Role == "cmd" {
				lastCmd = i
			}
		}
		depth := len(p.Chain)
		for i, t := range toks {
			if i < lastCmd {
				out = append(out, t.Text)
				continue
			}
			if i == lastCmd {
				continue
			}
			switch t.Role {
			case "pos", "rest", "ddash", "raw":
				continue
			}
			if t.Level >= depth {
				continue
			}
			out = append(out, t.Text)
		}
		out = append(out, strings.Fields(f.Text)...)
	case "truncate":
		for i, t := range toks {
			if i < f.Pos {
				out = append(out, t.Text)
			}
		}
	default:
		out = p.argv()
	}
	return out
}
