package main

import (
	"encoding/json"
	"fmt"
	"io/ioutil"
	"os"
	"reflect"

	"github.com/jessevdk/go-flags/simrt"
)

type simrtSchedule = simrt.Schedule

// KnownFinding is one genuine defect of the library recorded (not repaired)
// in /verif/known_findings.json. Matcher names a predicate over the MINIMISED
// scenario and its verdict, implemented in knownMatchers; a violation that no
// matcher covers is reported as a VIOLATION.
type KnownFinding struct {
	ID       string            `json:"id"`
	Property string            `json:"property"`
	Status   string            `json:"status"` // "known" (suppresses, printed as KNOWN-FINDING) or "fixed" (documentation only)
	What     string            `json:"what"`
	Matcher  string            `json:"matcher,omitempty"`
	Params   map[string]string `json:"params,omitempty"`
	Commit   string            `json:"commit,omitempty"`
}

type KnownFile struct {
	Findings []KnownFinding `json:"findings"`
}

type knownSet struct{ fs []KnownFinding }

func loadKnown(path string) *knownSet {
	ks := &knownSet{}
	if path == "" {
		return ks
	}
	b, err := ioutil.ReadFile(path)
	if err != nil {
		if os.IsNotExist(err) {
			return ks
		}
		fmt.Fprintln(os.Stderr, "simexec: cannot read known findings:", err)
		os.Exit(2)
	}
	var kf KnownFile
	if err := json.Unmarshal(b, &kf); err != nil {
		fmt.Fprintln(os.Stderr, "simexec: bad known findings file:", err)
		os.Exit(2)
	}
	for _, f := range kf.Findings {
		if f.Status != "known" {
			continue // fixed entries suppress nothing
		}
		if _, ok := knownMatchers[f.Matcher]; !ok {
			fmt.Fprintf(os.Stderr, "simexec: known finding %s names unknown matcher %q\n", f.ID, f.Matcher)
			os.Exit(2)
		}
		ks.fs = append(ks.fs, f)
	}
	return ks
}

// matchAttrs returns the id of the known finding covering one atomic failure.
func (k *knownSet) matchAttrs(prop, class string, attrs map[string]string) string {
	if k == nil {
		return ""
	}
	for _, f := range k.fs {
		if f.Property != prop {
			continue
		}
		if knownMatchers[f.Matcher](class, attrs, f.Params) {
			return f.ID
		}
	}
	return ""
}

var knownGlobal *knownSet

// knownMatchers: predicates over (violation class, attributes of the atomic
// failure as reported by the judge).
var knownMatchers = map[string]func(class string, attrs map[string]string, params map[string]string) bool{
	// C12: two different groups answer to the same INI section name
	"c12-colliding-section-names": func(class string, a map[string]string, _ map[string]string) bool {
		return (class == "c12:own-output-rejected" || class == "c12:value-differs") && a["section_collision"] == "true"
	},
	// C12: an empty slice / empty map / nil pointer is written as a commented
	// entry, which cannot override a non-empty `default:` tag on reading.
	"c12-empty-value-with-default-tag": func(class string, a map[string]string, _ map[string]string) bool {
		return class == "c12:value-differs" && (a["value_class"] == "empty" || a["value_class"] == "nil") && a["has_default"] == "true" && a["read_failed"] == "false" && a["back_is_default"] == "true"
	},
}

func (sc *Scenario) payloadSummary() interface{} {
	if sc.C14 != nil {
		c := cloneJSON(sc.C14)
		if len(c.Arbitrary) > 300 {
			c.Arbitrary = BStr(clip(string(c.Arbitrary), 300))
		}
		for i := range c.Entries {
			if len(c.Entries[i].Val) > 100 {
				c.Entries[i].Val = BStr(clip(string(c.Entries[i].Val), 100))
			}
			if len(c.Entries[i].Post) > 20 {
				c.Entries[i].Post = "<long blank padding>"
			}
			for j := range c.Entries[i].Noise {
				c.Entries[i].Noise[j] = clip(c.Entries[i].Noise[j], 60)
			}
		}
		for j := range c.TailNoise {
			c.TailNoise[j] = clip(c.TailNoise[j], 60)
		}
		if len(c.ChunksB) > 12 {
			c.ChunksB = c.ChunksB[:12]
		}
		return c
	}
	for _, pl := range []interface{}{sc.C09, sc.C04, sc.C05, sc.C12} {
		if !reflect.ValueOf(pl).IsNil() {
			var generic interface{}
			if json.Unmarshal([]byte(mustJSON(pl)), &generic) == nil {
				return clipStrings(generic)
			}
		}
	}
	return sc.Aux
}

// clipStrings shortens long strings inside a decoded JSON value (evidence samples).
func clipStrings(v interface{}) interface{} {
	switch x := v.(type) {
	case string:
		return clip(x, 160)
	case []interface{}:
		if len(x) > 40 {
			x = x[:40]
		}
		for i := range x {
			x[i] = clipStrings(x[i])
		}
		return x
	case map[string]interface{}:
		for k := range x {
			x[k] = clipStrings(x[k])
		}
		return x
	}
	return v
}
