package main

import (
	"encoding/json"
	"fmt"
	"io/ioutil"
	"os"

	"github.com/jessevdk/go-flags/simrt"
)

type simrtSchedule = simrt.Schedule

// KnownFinding is one genuine defect of the library recorded (not repaired)
// in /verif/known_findings.json. Matcher names a predicate over the MINIMISED
// scenario and its verdict, implemented in knownMatchers; a violation that no
// matcher covers is reported as a VIOLATION.
type KnownFinding struct {
	ID       string            `json:"id"`
	Property string            `json:"property"`
	Status   string            `json:"status"` // "known" (suppresses, printed as KNOWN-FINDING) or "fixed" (documentation only)
	What     string            `json:"what"`
	Matcher  string            `json:"matcher,omitempty"`
	Params   map[string]string `json:"params,omitempty"`
	Commit   string            `json:"commit,omitempty"`
}

type KnownFile struct {
	Findings []KnownFinding `json:"findings"`
}

type knownSet struct{ fs []KnownFinding }

func loadKnown(path string) *knownSet {
	ks := &knownSet{}
	if path == "" {
		return ks
	}
	b, err := ioutil.ReadFile(path)
	if err != nil {
		if os.IsNotExist(err) {
			return ks
		}
		fmt.Fprintln(os.Stderr, "simexec: cannot read known findings:", err)
		os.Exit(2)
	}
	var kf KnownFile
	if err := json.Unmarshal(b, &kf); err != nil {
		fmt.Fprintln(os.Stderr, "simexec: bad known findings file:", err)
		os.Exit(2)
	}
	for _, f := range kf.Findings {
		if f.Status != "known" {
			continue // fixed entries suppress nothing
		}
		if _, ok := knownMatchers[f.Matcher]; !ok {
			fmt.Fprintf(os.Stderr, "simexec: known finding %s names unknown matcher %q\n", f.ID, f.Matcher)
			os.Exit(2)
		}
		ks.fs = append(ks.fs, f)
	}
	return ks
}

// match returns the id of the known finding covering this violation, or "".
func (k *knownSet) match(sc *Scenario, v *Verdict) string {
	if k == nil || v == nil || v.OK {
		return ""
	}
	for _, f := range k.fs {
		if f.Property != sc.Prop {
			continue
		}
		if knownMatchers[f.Matcher](sc, v, f.Params) {
			return f.ID
		}
	}
	return ""
}

var knownMatchers = map[string]func(sc *Scenario, v *Verdict, params map[string]string) bool{}

func (sc *Scenario) payloadSummary() interface{} {
	if sc.C14 != nil {
		c := cloneJSON(sc.C14)
		if len(c.Arbitrary) > 300 {
			c.Arbitrary = BStr(clip(string(c.Arbitrary), 300))
		}
		for i := range c.Entries {
			if len(c.Entries[i].Val) > 100 {
				c.Entries[i].Val = BStr(clip(string(c.Entries[i].Val), 100))
			}
			if len(c.Entries[i].Post) > 20 {
				c.Entries[i].Post = "<long blank padding>"
			}
			for j := range c.Entries[i].Noise {
				c.Entries[i].Noise[j] = clip(c.Entries[i].Noise[j], 60)
			}
		}
		for j := range c.TailNoise {
			c.TailNoise[j] = clip(c.TailNoise[j], 60)
		}
		if len(c.ChunksB) > 12 {
			c.ChunksB = c.ChunksB[:12]
		}
		return c
	}
	return sc.Aux
}
