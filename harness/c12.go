package main

import (
	"fmt"
	"sort"
	"strconv"
	"strings"

	"github.com/jessevdk/go-flags/simrt"
)

// C12 — INI write/read round trip: writer → (simulated disk) → reboot → reader.

type C12Boot struct {
	Stores  []Op             `json:"stores,omitempty"`
	IniOpts uint             `json:"ini_opts"`
	ViaFile bool             `json:"via_file,omitempty"`
	Chunks  []simrt.ReadStep `json:"chunks,omitempty"`
	Rest    int              `json:"rest,omitempty"`
	// Order in which the fresh parser applies defaults and reads the text:
	// "" = read then ParseArgs(nil); "parse-read" = ParseArgs(nil) then read;
	// "parse-read-parse" = both.
	Order string `json:"order,omitempty"`
	// PreFail: before the write that is judged, the same IniParser is asked to
	// write to a destination that fails part-way (the program then retries).
	PreFail []simrt.WriteFault `json:"pre_fail,omitempty"`
}

type C12Payload struct {
	// PreRead, when set, is an INI text read before the first boot's stores:
	// the "load config, change a setting, save config" lifecycle.
	PreRead BStr `json:"pre_read,omitempty"`
	// NoFirstParse: the program assigns its fields and saves the configuration
	// without ever having parsed a command line.
	NoFirstParse bool      `json:"no_first_parse,omitempty"`
	Boots        []C12Boot `json:"boots"`
}

type propC12 struct{}

func (propC12) ID() string { return "C12" }

func c12Cfg() *DeclCfg {
	return &DeclCfg{
		Kinds: []string{"bool", "int", "int8", "int16", "int32", "int64", "uint", "uint8", "uint16", "uint32", "uint64", "float32", "float64",
			"string", "string", "string", "duration", "[]int", "[]string", "[]string", "[]float64", "[]uint8", "map[string]int", "map[string]string", "map[string]string",
			"map[int]string", "map[string]bool", "map[string]float64", "*int", "*string", "*bool", "*uint16", "um", "func(string)", "[]bool", "filename", "ulist", "level", "[]level", "map[string]level"},
		MinOpts: 1, MaxOpts: 5, MaxGroups: 2, MaxSub: 2, MaxCmds: 3, MaxDepth: 3, Exec: true,
		Defaults: true, Hidden: true, NoIni: true, IniName: true, Namespaces: true, Base: true, Init: false, Descriptions: true, Choices: false, DottedCmds: true, MultiLine: true, BaseMulti: true, Optional: true, DupFields: true, CapCmds: true, Colliding: true,
		ParserOpts: []uint{0, optHelpFlag, optHelpFlag | optPassDoubleDash, optIgnoreUnknown},
	}
}

func makeSubOptional(d *DeclSpec) {
	d.SubOptional = true
	var rec func(cs []*CmdSpec)
	rec = func(cs []*CmdSpec) {
		for _, c := range cs {
			c.SubOptional = true
			rec(c.Commands)
		}
	}
	rec(d.Commands)
}

func genC12Stores(r *Rng, d *DeclSpec) []Op {
	var out []Op
	for _, oi := range optInfos(d) {
		if isFuncKind(oi.O.Kind) || !r.Chance(2, 3) {
			continue
		}
		k := oi.O.Kind
		nasty := baseKind(k) == "string" || k == "filename"
		v := genStoreValue(r, k, nasty)
		out = append(out, Op{Kind: "store", Path: oi.Path, Val: &v})
	}
	return out
}

func (propC12) Gen(r *Rng, idx int, tier string) *Scenario {
	sc := &Scenario{Prop: "C12", Family: "roundtrip", C12: &C12Payload{}}
	sc.Decl = genDecl(r.Fork("decl"), c12Cfg())
	makeSubOptional(sc.Decl)
	if ur := r.Fork("unnamed"); ur.Chance(1, 5) {
		// a command's extra group without a name (AddGroup("", ...)): its options
		// live in the command's own section
		var cands []*CmdSpec
		for _, c := range sc.Decl.allCmds() {
			if len(c.C.Groups) > 0 {
				cands = append(cands, c.C)
			}
		}
		if len(cands) > 0 {
			cands[ur.Intn(len(cands))].Groups[0].Name = ""
		}
	}
	if fr := r.Fork("foldnames"); fr.Chance(1, 6) {
		// two ini-names of one section that differ, but only just: equal under Unicode
		// case folding, not equal when lower-cased
		bySec := map[string][]optInfo{}
		for _, oi := range optInfos(sc.Decl) {
			if !oi.O.NoIni && !oi.O.Hidden && !isFuncKind(oi.O.Kind) {
				bySec[oi.Section] = append(bySec[oi.Section], oi)
			}
		}
		for _, sec := range sortedKeys(bySec) {
			if xs := bySec[sec]; len(xs) >= 2 {
				pair := fr.Pick2([]int{0, 1})
				names := [][2]string{{"timeout-\u00b5s", "timeout-\u03bcs"}, {"\u017fize", "size"}}[pair]
				xs[0].O.IniName, xs[1].O.IniName = names[0], names[1]
				break
			}
		}
	}
	if tr := r.Fork("tags"); tr.Chance(1, 3) {
		// tags that mean something on the command line or in the help only: the INI
		// text and its reading are the same with them
		for _, oi := range optInfos(sc.Decl) {
			o := oi.O
			if (o.Kind == "string" || o.Kind == "[]string" || o.Kind == "map[string]string") && tr.Chance(1, 3) {
				o.NoUnquote = true
			}
			if len(o.Default) > 0 && tr.Chance(1, 2) {
				o.DefaultMask = tr.Pick([]string{"-", "*****", "secret token"})
			}
		}
	}
	if gr := r.Fork("renamed"); gr.Chance(1, 6) && len(sc.Decl.Groups) > 0 {
		// a top-level group that got its name only after it was added
		g := sc.Decl.Groups[gr.Intn(len(sc.Decl.Groups))]
		g.CreatedAs = "Old " + g.Name
	}
	sc.World = WorldSpec{Cols: 80, Now: 1700000000}
	p := sc.C12
	pr := r.Fork("pre")
	if pr.Chance(1, 3) {
		// a harness-rendered config that quotes values and spells keys freely
		var b strings.Builder
		cur := ""
		for _, oi := range optInfos(sc.Decl) {
			if oi.O.NoIni || isFuncKind(oi.O.Kind) || !pr.Chance(1, 2) {
				continue
			}
			if oi.Section != cur {
				b.WriteString("[" + oi.Section + "]\n")
				cur = oi.Section
			}
			val := iniValText(pr, oi.O)
			if oi.O.Base != 0 {
				val = "1"
			}
			if pr.Chance(1, 2) && val != "" {
				val = quoteIni(oi.O.Kind, val)
			}
			b.WriteString(pr.Pick(iniKeySpellings(oi)) + " = " + val + "\n")
		}
		p.PreRead = BStr(b.String())
	}
	p.NoFirstParse = p.PreRead == "" && r.Fork("nofirstparse").Chance(1, 6)
	nb := 1
	br := r.Fork("boots")
	if br.Chance(1, 3) {
		nb = br.Range(2, 3)
	}
	for i := 0; i < nb; i++ {
		b := C12Boot{Stores: genC12Stores(r.Fork(fmt.Sprint("stores", i)), sc.Decl), IniOpts: uint(br.Intn(8)) << 1, ViaFile: br.Chance(1, 3)}
		b.Order = br.Pick([]string{"", "", "parse-read", "parse-read-parse"})
		if fr := r.Fork(fmt.Sprint("prefail", i)); fr.Chance(1, 6) {
			b.PreFail = []simrt.WriteFault{{At: fr.Intn(3), Accept: fr.Pick2([]int{0, 1, 7, 40}), Err: fr.Pick([]string{"ENOSPC", "EIO", "EPIPE", ""}), Sticky: fr.Bool()}}
		}
		b.Chunks, b.Rest = genChunkPlan(br, 300)
		if len(b.Chunks) > 0 && br.Bool() {
			b.Chunks = nil
			b.Rest = br.Pick2([]int{1, 2, 5, 64, 4096})
		}
		p.Boots = append(p.Boots, b)
	}
	return sc
}

// inBase10 rewrites default texts of an option with a base tag into decimal, which
// is what the harness's own converter reads (integer parts only).
func inBase10(o *OptSpec, texts []string) []string {
	if o.Base == 0 {
		return texts
	}
	conv := func(t string) string {
		if n, err := strconv.ParseInt(t, o.Base, 64); err == nil {
			return strconv.FormatInt(n, 10)
		}
		return t
	}
	out := make([]string, len(texts))
	for i, t := range texts {
		switch {
		case isMapKind(o.Kind):
			parts := strings.SplitN(t, ":", 2)
			if len(parts) == 2 {
				if strings.Contains(mapKeyKind(o.Kind), "int") {
					parts[0] = conv(parts[0])
				}
				if strings.Contains(elemKind(o.Kind), "int") {
					parts[1] = conv(parts[1])
				}
				out[i] = parts[0] + ":" + parts[1]
			} else {
				out[i] = t
			}
		default:
			out[i] = conv(t)
		}
	}
	return out
}

func valuesMap(vals []string) map[string]string {
	m := map[string]string{}
	for _, l := range vals {
		if i := strings.Index(l, " = "); i > 0 {
			m[l[:i]] = l[i+3:]
		}
	}
	return m
}

// valueClass: coarse class of a dumped value for signatures and matchers.
func c12ValueClass(kind, dump string) string {
	switch {
	case dump == "nil":
		return "nil"
	case dump == "[]" || dump == "{}":
		return "empty"
	case baseKind(kind) == "string" || kind == "filename":
		switch {
		case strings.Contains(dump, "\\x") || strings.Contains(dump, "\\u") || strings.Contains(dump, "\\n") || strings.Contains(dump, "\\t") || strings.Contains(dump, "\\r"):
			return "str-ctl"
		case strings.Contains(dump, "\" ") || strings.Contains(dump, " \"") || strings.HasPrefix(dump, "\" ") || strings.Contains(dump, "[\" "):
			return "str-blank-edge"
		case strings.Contains(dump, "\\\""):
			return "str-quote"
		case len(dump) > 4000:
			return "str-long"
		case dump == "\"\"":
			return "str-empty"
		}
		return "str"
	}
	return "val"
}

func (propC12) Judge(sc *Scenario) *Verdict {
	v := &Verdict{OK: true}
	p := sc.C12
	if p == nil || len(p.Boots) == 0 {
		return harnessTrouble(v, "C12 scenario without payload")
	}
	// materialise the history
	s2 := *sc
	s2.Ops = nil
	type mark struct{ write, read, last int }
	var marks []mark
	if p.PreRead != "" {
		s2.Ops = append(s2.Ops, Op{Kind: "iniread", Data: p.PreRead})
	}
	if !p.NoFirstParse {
		s2.Ops = append(s2.Ops, Op{Kind: "parse"})
	}
	for i, b := range p.Boots {
		s2.Ops = append(s2.Ops, b.Stores...)
		file := ""
		if b.ViaFile {
			file = "cfg.ini" // every boot saves to the same path, as a program would
			_ = i
		}
		if len(b.PreFail) > 0 {
			s2.Ops = append(s2.Ops, Op{Kind: "iniwrite", IniOpts: b.IniOpts, File: file, WFaults: b.PreFail})
		}
		w := len(s2.Ops)
		s2.Ops = append(s2.Ops, Op{Kind: "iniwrite", IniOpts: b.IniOpts, File: file})
		s2.Ops = append(s2.Ops, Op{Kind: "reboot"})
		// the reader needs the bytes: for the io.Writer path they are taken from
		// the write op's output in a first pass (see below)
		rdop := Op{Kind: "iniread", File: file, Chunks: b.Chunks, Rest: b.Rest}
		back := 2 // read the bytes the write this many operations back produced
		if b.Order != "" {
			s2.Ops = append(s2.Ops, Op{Kind: "parse"})
			back = 3
		}
		if file == "" {
			rdop.SrcBack = back
		}
		rd := len(s2.Ops)
		s2.Ops = append(s2.Ops, rdop)
		last := rd
		if b.Order != "parse-read" {
			s2.Ops = append(s2.Ops, Op{Kind: "parse"})
			last = rd + 1
		}
		marks = append(marks, mark{w, rd, last})
	}
	o := Execute(&s2, nil)
	v.Evals++
	if o.HarnessPanic != "" {
		return harnessTrouble(v, o.HarnessPanic)
	}
	v.addStats(o.Stats)
	if o.DeclErr != "" {
		v.NotJudged = "declaration rejected"
		v.Sig = "C12|declerr"
		return v
	}
	ois := map[string]optInfo{}
	for _, oi := range optInfos(sc.Decl) {
		ois[oi.Path] = oi
	}
	hiddenPath := hiddenPaths(sc.Decl)
	collide := sectionCollision(sc.Decl)
	// every operation must succeed: the text is the library's own output
	for i, r := range o.Ops {
		if ab := abnormal(&r); ab != "" {
			v.fail("c12:abnormal:"+strings.SplitN(ab, ":", 2)[0], fmt.Sprintf("operation %d (%s) did not return normally: %s", i, r.Op, ab))
			return finishC12(v, sc, o, nil)
		}
	}
	if p.PreRead != "" && o.Ops[0].Err != "" {
		v.NotJudged = "pre-read config rejected"
		return finishC12(v, sc, o, nil)
	}
	classes := map[string]bool{}
	for bi, m := range marks {
		wr, rd, ps := o.Ops[m.write], o.Ops[m.read], o.Ops[m.last]
		written := valuesMap(wr.Values)
		if m.write > 0 && !o.Ops[m.write-1].Skipped && o.Ops[m.write-1].Op != "reboot" && len(o.Ops[m.write-1].Values) > 0 {
			// the values the program held when it asked for them to be written (writing
			// must not change them either)
			written = valuesMap(o.Ops[m.write-1].Values)
		}
		text := string(wr.Out)
		if s2.Ops[m.write].File != "" {
			text = string(o.Files[s2.Ops[m.write].File])
		}
		if wr.Err != "" {
			v.fail("c12:write-error", fmt.Sprintf("boot %d: WriteFile failed: %s", bi+1, readSummary(&wr)))
			break
		}
		iniOpts := s2.Ops[m.write].IniOpts
		back := valuesMap(ps.Values)
		readFailed := rd.Err != "" || ps.Err != ""
		for i := m.write + 1; i <= m.last; i++ {
			if o.Ops[i].Err != "" {
				readFailed = true
				if rd.Err == "" && ps.Err == "" {
					ps = o.Ops[i]
				}
			}
		}
		// compare option by option; an error while reading is attributed to the
		// options whose value could not come back
		var diffs []string
		for _, path := range sortedKeys(written) {
			oi, ok := ois[path]
			if !ok {
				continue // positional
			}
			if oi.O.NoIni || oi.O.Hidden || hiddenPath[path] || isFuncKind(oi.O.Kind) {
				continue
			}
			classes[oi.O.Kind+":"+c12ValueClass(oi.O.Kind, written[path])] = true
			if !readFailed && back[path] == written[path] {
				continue
			}
			attrs := map[string]string{
				"kind": oi.O.Kind, "written": written[path], "back": back[path], "value_class": c12ValueClass(oi.O.Kind, written[path]),
				"has_default": fmt.Sprint(len(oi.O.Default) > 0), "has_init": fmt.Sprint(oi.O.Init != nil),
				"include_defaults": fmt.Sprint(iniOpts&iniIncludeDefaults != 0), "read_failed": fmt.Sprint(readFailed),
				"section_collision": fmt.Sprint(collide),
			}
			if len(oi.O.Default) > 0 {
				// what the default tags denote (harness's own converter), to tell "the default
				// came back" from any other wrong value
				if dv, err := modelApply(oi.O.Kind, inBase10(oi.O, strs(oi.O.Default))); err == nil {
					attrs["back_is_default"] = fmt.Sprint(dumpV(oi.O.Kind, dv) == back[path])
				}
			}
			if readFailed {
				// only blame options whose rendering the error can stem from: decide by
				// re-reading is not possible model-free, so the whole read failure is
				// reported once, with the first non-default option as carrier
				continue
			}
			diffs = append(diffs, path)
			v.failAttr("C12", "c12:value-differs", fmt.Sprintf("boot %d (IniOptions=%#x): option %s (%s) was %s when written and is %s after reading the text back into a fresh parser and applying defaults\nwritten text: %s",
				bi+1, iniOpts, path, oi.O.Kind, clip(written[path], 300), clip(back[path], 300), q(clip(text, 1500))), attrs)
		}
		if readFailed {
			bad := &rd
			if rd.Err == "" {
				bad = &ps
			}
			attrs := map[string]string{"include_defaults": fmt.Sprint(iniOpts&iniIncludeDefaults != 0), "msg": string(bad.Msg), "line": fmt.Sprint(bad.Line), "section_collision": fmt.Sprint(collide)}
			// which written line does the error point at?
			lines := strings.Split(text, "\n")
			if bad.Line > 0 && int(bad.Line) <= len(lines) {
				attrs["text_line"] = lines[bad.Line-1]
			}
			v.failAttr("C12", "c12:own-output-rejected", fmt.Sprintf("boot %d (IniOptions=%#x): the library could not read back its own INI output: %s\nwritten text: %s", bi+1, iniOpts, readSummary(bad), q(clip(text, 1500))), attrs)
		}
		if !v.OK {
			break
		}
	}
	return finishC12(v, sc, o, classes)
}

// sectionCollision: do two different groups of the declaration answer to the same
// INI section name (group names are matched without regard to case)?
func sectionCollision(d *DeclSpec) bool {
	seen := map[string]bool{}
	dup := false
	add := func(s string) {
		s = strings.ToLower(s)
		if seen[s] {
			dup = true
		}
		seen[s] = true
	}
	d.eachGroupSpec(func(g *GroupSpec, cp []string, own bool) {
		s := strings.Join(cp, ".")
		if !own {
			if s != "" {
				s += "."
			}
			s += g.Name
		}
		if g.Name == "" && len(cp) > 0 {
			return // an unnamed group of a command shares the command's section by design
		}
		add(s)
	})
	for _, c := range d.allCmds() {
		own := false
		if c.C.Own != nil && !c.C.Exec {
			own = true
		}
		if !own {
			add(strings.Join(c.Path, "."))
		}
	}
	return dup
}

func hiddenPaths(d *DeclSpec) map[string]bool {
	out := map[string]bool{}
	// options inside hidden groups or hidden commands are not written
	var recG func(g *GroupSpec, cp []string, gpath string, hidden bool)
	recG = func(g *GroupSpec, cp []string, gpath string, hidden bool) {
		hidden = hidden || g.Hidden
		for _, o := range g.Opts {
			if hidden {
				out[strings.Join(cp, ".")+"|"+gpath+"|"+o.Field] = true
			}
		}
		for _, s := range g.Sub {
			recG(s, cp, gpath+"/"+s.Name, hidden)
		}
	}
	if d.Root != nil {
		recG(d.Root, nil, d.Root.Name, false)
	}
	for _, g := range d.Groups {
		recG(g, nil, g.Name, false)
	}
	var recC func(cs []*CmdSpec, path []string, hidden bool)
	recC = func(cs []*CmdSpec, path []string, hidden bool) {
		for _, c := range cs {
			p := append(append([]string{}, path...), c.Name)
			h := hidden || c.Hidden
			if c.Own != nil {
				if c.Exec {
					recG(c.Own, p, c.Own.Name, h)
				} else {
					recG(c.Own, p, "", h)
				}
			}
			for _, g := range c.Groups {
				recG(g, p, g.Name, h)
			}
			recC(c.Commands, p, h)
		}
	}
	recC(d.Commands, nil, false)
	return out
}

func finishC12(v *Verdict, sc *Scenario, o *Outcome, classes map[string]bool) *Verdict {
	p := sc.C12
	var cs []string
	for c := range classes {
		cs = append(cs, c)
	}
	sort.Strings(cs)
	frag := "one"
	multi := false
	long := false
	for _, b := range p.Boots {
		if len(b.Chunks) > 0 || b.Rest > 0 {
			frag = "fragmented"
			multi = true
		}
	}
	quoting := false
	for _, c := range cs {
		if strings.Contains(c, "str-") {
			quoting = true
		}
		if strings.HasSuffix(c, "str-long") {
			long = true
		}
	}
	var opts []string
	for _, b := range p.Boots {
		opts = append(opts, fmt.Sprint(b.IniOpts))
	}
	for _, b := range p.Boots {
		opts = append(opts, b.Order)
	}
	// signature: value classes without the concrete kind
	vc := map[string]bool{}
	for _, c := range cs {
		k := strings.SplitN(c, ":", 2)
		kk := "scalar"
		switch {
		case isSliceKind(k[0]):
			kk = "slice"
		case isMapKind(k[0]):
			kk = "map"
		case isPtrKind(k[0]):
			kk = "ptr"
		}
		vc[kk+":"+k[1]] = true
	}
	// signature: IniOptions and read order of the first boot, fragmentation class and
	// the rarest-looking (kind class : value class) pair written; all pairs are
	// additionally counted as coverage cells
	best := ""
	rank := func(c string) int {
		switch {
		case strings.Contains(c, "str-ctl"), strings.Contains(c, "str-blank-edge"), strings.Contains(c, "str-quote"), strings.Contains(c, "str-long"):
			return 3
		case strings.Contains(c, "nil"), strings.Contains(c, "empty"):
			return 2
		}
		return 1
	}
	for _, c := range sortedKeys(vc) {
		v.stat(fmt.Sprintf("cell.%s|opts=%d", c, p.Boots[0].IniOpts))
		if best == "" || rank(c) > rank(best) {
			best = c
		}
	}
	v.Sig = fmt.Sprintf("C12|opts=%d|%s|boots=%d|%s|%s", p.Boots[0].IniOpts, p.Boots[0].Order, len(p.Boots), frag, best)
	v.NonTrivial = len(cs) > 0 && (multi || long || quoting)
	return v
}

func (propC12) Reductions(sc *Scenario) []func(*Scenario) bool {
	var out []func(*Scenario) bool
	p := sc.C12
	if p == nil {
		return nil
	}
	if len(p.Boots) > 1 {
		out = append(out, func(s *Scenario) bool {
			if len(s.C12.Boots) < 2 {
				return false
			}
			s.C12.Boots = s.C12.Boots[:len(s.C12.Boots)-1]
			return true
		}, func(s *Scenario) bool {
			if len(s.C12.Boots) < 2 {
				return false
			}
			s.C12.Boots = s.C12.Boots[1:]
			return true
		})
	}
	if p.PreRead != "" {
		out = append(out, func(s *Scenario) bool { s.C12.PreRead = ""; return true })
		lines := strings.SplitAfter(string(p.PreRead), "\n")
		for j := range lines {
			j := j
			out = append(out, func(s *Scenario) bool {
				ls := strings.SplitAfter(string(s.C12.PreRead), "\n")
				if j >= len(ls) || ls[j] == "" {
					return false
				}
				s.C12.PreRead = BStr(strings.Join(append(ls[:j:j], ls[j+1:]...), ""))
				return true
			})
		}
	}
	for bi := range p.Boots {
		bi := bi
		out = append(out,
			func(s *Scenario) bool {
				if bi >= len(s.C12.Boots) {
					return false
				}
				s.C12.Boots[bi].Chunks, s.C12.Boots[bi].Rest = nil, 0
				return true
			},
			func(s *Scenario) bool {
				if bi >= len(s.C12.Boots) {
					return false
				}
				s.C12.Boots[bi].ViaFile = false
				return true
			},
			func(s *Scenario) bool {
				if bi >= len(s.C12.Boots) || s.C12.Boots[bi].Order == "" {
					return false
				}
				s.C12.Boots[bi].Order = ""
				return true
			})
		for bit := uint(2); bit <= 8; bit <<= 1 {
			bit := bit
			out = append(out, func(s *Scenario) bool {
				if bi >= len(s.C12.Boots) || s.C12.Boots[bi].IniOpts&bit == 0 {
					return false
				}
				s.C12.Boots[bi].IniOpts &^= bit
				return true
			})
		}
		for si := range p.Boots[bi].Stores {
			si := si
			out = append(out, func(s *Scenario) bool {
				if bi >= len(s.C12.Boots) || si >= len(s.C12.Boots[bi].Stores) {
					return false
				}
				st := s.C12.Boots[bi].Stores
				s.C12.Boots[bi].Stores = append(st[:si:si], st[si+1:]...)
				return true
			})
			// simplify the stored value: fewer elements, shorter strings
			out = append(out, func(s *Scenario) bool {
				if bi >= len(s.C12.Boots) || si >= len(s.C12.Boots[bi].Stores) {
					return false
				}
				val := s.C12.Boots[bi].Stores[si].Val
				if val == nil || len(val.L) < 2 {
					return false
				}
				val.L = val.L[:len(val.L)-1]
				if len(val.K) > len(val.L) {
					val.K = val.K[:len(val.L)]
				}
				return true
			})
			out = append(out, func(s *Scenario) bool {
				if bi >= len(s.C12.Boots) || si >= len(s.C12.Boots[bi].Stores) {
					return false
				}
				val := s.C12.Boots[bi].Stores[si].Val
				if val == nil {
					return false
				}
				changed := false
				if len(val.T) > 12 {
					val.T = val.T[:len(val.T)/2]
					changed = true
				}
				for i := range val.L {
					if len(val.L[i].T) > 12 {
						val.L[i].T = val.L[i].T[:len(val.L[i].T)/2]
						changed = true
					}
				}
				return changed
			})
		}
	}
	return out
}
