package main

import (
	"fmt"
	"sort"
	"strings"

	"github.com/jessevdk/go-flags/simrt"
)

// C15 — outcomes are deterministic: the same scenario is executed under K
// different map-iteration schedules; everything observable must agree.

type propC15 struct{}

func (propC15) ID() string { return "C15" }

var allKinds = []string{
	"bool", "int", "int8", "int64", "uint", "uint16", "float64", "float32", "string", "duration",
	"[]int", "[]string", "[]bool", "map[string]int", "map[string]string", "map[int]string", "map[string]bool",
	"*int", "*string", "*bool", "func()", "func(string)", "func(int) error", "um", "[]um", "vv", "cp", "filename",
}

func c15Cfg() *DeclCfg {
	return &DeclCfg{
		Kinds:   append(append([]string{}, allKinds...), "map[string]int", "map[string]string", "map[int]string", "map[string]string", "[]string", "uptr", "level", "ulist"),
		MinOpts: 1, MaxOpts: 5, MaxGroups: 2, MaxSub: 1, MaxCmds: 3, MaxDepth: 2, Exec: true,
		Env: true, Defaults: true, Required: true, Choices: true, Optional: true, Hidden: true, NoIni: true, IniName: true,
		Base: true, Pos: true, Namespaces: true, Init: true, InitMulti: true, Descriptions: true, Aliases: true, ShortOnly: true, MultiByte: true, DottedCmds: true, DupTags: true, ManyAliases: true, CapCmds: true, BigGroup: true, CaseLongs: true, PtrGroups: true,
		ParserOpts: []uint{0, optHelpFlag, optHelpFlag | optPassDoubleDash, optHelpFlag | optPrintErrors | optPassDoubleDash, optIgnoreUnknown, optPassAfterNonOption | optHelpFlag, optHelpFlag | optIgnoreUnknown | optPrintErrors},
	}
}

// genIniForDecl renders an INI text addressing a handful of options, some of
// them from several sections and several times.
func genIniForDecl(r *Rng, d *DeclSpec, dupSections bool) string {
	ois := optInfos(d)
	var global, rest []IniEntry
	n := r.Range(1, 6)
	for i := 0; i < n && len(ois) > 0; i++ {
		oi := ois[r.Intn(len(ois))]
		if oi.O.NoIni && r.Chance(3, 4) {
			continue
		}
		key := r.Pick(iniKeySpellings(oi))
		e := IniEntry{Section: oi.Section, Key: key, Val: iniValText(r, oi.O), Opt: oi.Path}
		reps := 1
		if isSliceKind(oi.O.Kind) || isMapKind(oi.O.Kind) {
			reps = r.Range(1, 3)
		}
		for j := 0; j < reps; j++ {
			e.Val = iniValText(r, oi.O)
			if r.Chance(1, 12) {
				e.Val = r.Pick([]string{"x!y", "maybe", "12x", "k:x!y", "purple", "1.2.3"}) // conversion-error messages are observables too
			}
			rest = append(rest, e)
		}
		if dupSections {
			switch r.Intn(4) {
			case 0: // also from the global section (top-level groups only)
				if len(oi.CmdPath) == 0 {
					g := e
					g.Section = ""
					g.Val = iniValText(r, oi.O)
					global = append(global, g)
				}
			case 1: // the same section spelt differently (matched case-insensitively)
				if e.Section != "" && len(oi.CmdPath) == 0 {
					g := e
					g.Section = strings.ToUpper(e.Section)
					if g.Section == e.Section {
						g.Section = strings.ToLower(e.Section)
					}
					g.Val = iniValText(r, oi.O)
					rest = append(rest, g)
				}
			case 2: // the section again, later in the file, other key spelling
				g := e
				g.Key = r.Pick(iniKeySpellings(oi))
				g.Val = iniValText(r, oi.O)
				rest = append(rest, IniEntry{Section: "\x00brk"}, g)
			}
		}
	}
	var es []IniEntry
	es = append(es, global...)
	for _, e := range rest {
		es = append(es, e)
	}
	// "\x00brk" entries only force a header re-emission
	var b strings.Builder
	curSec := ""
	for _, e := range es {
		if e.Section == "\x00brk" {
			curSec = "\x00"
			continue
		}
		if e.Section != curSec {
			b.WriteString("[" + e.Section + "]\n")
			curSec = e.Section
		}
		b.WriteString(e.Key + " = " + e.Val + "\n")
	}
	if lr := r.Fork("long"); lr.Chance(1, 8) {
		// one line longer than any read buffer: a comment in front, or the value of a string option
		pat := lr.Pick([]string{"abcdefghij", "0123456789 ", "xyz; #", "q"})
		long := strings.Repeat(pat, lr.Range(4200, 9000)/len(pat))
		var cands []optInfo
		for _, oi := range ois {
			if oi.O.Kind == "string" && len(oi.O.Choices) == 0 && !oi.O.NoIni {
				cands = append(cands, oi)
			}
		}
		text := b.String()
		if len(cands) > 0 && lr.Bool() {
			oi := cands[lr.Intn(len(cands))]
			b.WriteString("[" + oi.Section + "]\n" + oi.O.Field + " = " + long + "\n")
			if lr.Bool() {
				b.WriteString(oi.O.Field + " = after\n")
			}
		} else {
			b.Reset()
			b.WriteString("; " + long + "\n" + text)
		}
	}
	if r.Chance(1, 6) {
		b.WriteString("[No Such Group]\nx = 1\n")
		if r.Bool() {
			// several unknown sections: which one is reported must not depend on map order
			b.WriteString("[Another Missing Group]\ny = 2\n[zzz.nope]\n")
		}
	}
	if r.Chance(1, 6) {
		b.WriteString("nosuchoption = 1\n")
	}
	if r.Fork("bom").Chance(1, 10) {
		return "\xef\xbb\xbf" + b.String() // a byte order mark in front (whatever the library makes of it, it makes the same of it every time)
	}
	return b.String()
}

func (propC15) Gen(r *Rng, idx int, tier string) *Scenario {
	sc := &Scenario{Prop: "C15", Family: "schedules"}
	dr := r.Fork("decl")
	sc.Decl = genDecl(dr, c15Cfg())
	if ur := r.Fork("unnamed"); ur.Chance(1, 6) {
		// a command's extra group without a name (AddGroup("", ...))
		var cands []*CmdSpec
		for _, c := range sc.Decl.allCmds() {
			if len(c.C.Groups) > 0 {
				cands = append(cands, c.C)
			}
		}
		if len(cands) > 0 {
			cands[ur.Intn(len(cands))].Groups[0].Name = ""
		}
	}
	sc.Decl.CompHandler = r.Fork("comp").Chance(3, 4)
	if r.Fork("handlers").Chance(1, 4) {
		sc.Decl.CmdHandler = "forward"
	}
	if r.Fork("unk").Chance(1, 5) {
		sc.Decl.UnknownHandler = r.Fork("unk2").Pick([]string{"drop", "keep"})
	}
	wr := r.Fork("world")
	sc.World = WorldSpec{Cols: []int{80, 40, 120, -1, 20, 0}[wr.Intn(6)], Now: 1700000000 + int64(wr.Intn(1000))*86400, Env: map[string]BStr{}}
	if wr.Chance(1, 3) {
		sc.World.Env["SOURCE_DATE_EPOCH"] = BStr(wr.Pick([]string{"0", "86400", "1600000000"}))
	}
	for _, oi := range optInfos(sc.Decl) {
		if oi.O.Env != "" && wr.Chance(1, 2) {
			// the variable the library looks up carries the env-namespaces; set that one
			// and the bare key
			sc.World.Env[oi.O.Env] = BStr(iniValText(wr, oi.O))
			if full := envFullOf(sc.Decl, oi); full != "" && full != oi.O.Env {
				sc.World.Env[full] = BStr(iniValText(wr, oi.O))
			}
		}
	}
	if cv := r.Fork("casevars"); cv.Chance(1, 6) {
		// variables whose names differ from an option's env key in case only (and
		// from each other in value); the key itself is not set
		for _, oi := range optInfos(sc.Decl) {
			full := envFullOf(sc.Decl, oi)
			if oi.O.Env == "" || full == "" || strings.ToLower(full) == full || !cv.Chance(1, 2) {
				continue
			}
			delete(sc.World.Env, full)
			delete(sc.World.Env, oi.O.Env)
			sc.World.Env[strings.ToLower(full)] = BStr(iniValText(cv, oi.O))
			sc.World.Env[full[:1]+strings.ToLower(full[1:])] = BStr(iniValText(cv, oi.O))
		}
	}
	if wr.Chance(1, 4) {
		// the configuration file exists already and holds sections of other programs
		sc.World.Files = map[string]BStr{"conf/app.ini": "[other program]\nx = 1\n[Another Tool]\ny = 2\n[zzz.settings]\nk = v\n[tool-b]\nq = 4\n"}
	}
	or := r.Fork("ops")
	nops := or.Range(2, 6)
	for i := 0; i < nops; i++ {
		switch or.Intn(9) {
		case 0, 1:
			sc.Ops = append(sc.Ops, Op{Kind: "iniread", Data: BStr(genIniForDecl(or, sc.Decl, true)), AsDefaults: or.Chance(1, 4)})
		case 2, 3:
			argv := genArgvLoose(or, sc.Decl, or.Range(0, 6))
			if or.Chance(1, 5) {
				for i := range argv {
					if strings.HasPrefix(argv[i], "--") && or.Bool() {
						argv[i] = strings.ToUpper(argv[i]) // an option name spelt in other case is another (or no) option
					}
				}
			}
			sc.Ops = append(sc.Ops, Op{Kind: "parse", Argv: bstrs(argv)})
		case 4, 5, 6:
			op := Op{Kind: []string{"help", "man", "iniwrite"}[or.Intn(3)]}
			if op.Kind == "iniwrite" {
				op.IniOpts = uint(or.Intn(8)) << 1
			}
			if op.Kind == "iniwrite" && or.Chance(1, 4) {
				// saved to a file, which now and then cannot be created
				op.File = "conf/app.ini"
				if or.Bool() {
					op.OpenErr = or.Pick([]string{"ENOENT", "EACCES", "EISDIR"})
				}
			}
			if or.Chance(1, 5) {
				// the writer fails part-way: what the NEXT evaluation produces must not depend on it
				op.WFaults = []simrt.WriteFault{{At: or.Intn(3), Accept: or.Pick2([]int{0, 1, 10, 100}), Err: or.Pick([]string{"EPIPE", "ENOSPC", "EIO"}), Sticky: or.Bool()}}
			}
			sc.Ops = append(sc.Ops, op)
		case 7:
			// completion request
			argv := genArgvLoose(or, sc.Decl, or.Range(0, 3))
			last := or.Pick([]string{"-", "--", "", "--p", "-a", "a", "--" + or.Pick(longWords)[:1]})
			if cs := sc.Decl.allCmds(); len(cs) > 0 && or.Bool() {
				// a prefix of a command name or alias
				c := cs[or.Intn(len(cs))].C
				w := c.Name
				if len(c.Aliases) > 0 && or.Bool() {
					w = c.Aliases[or.Intn(len(c.Aliases))]
				}
				last = w[:or.Range(1, len(w))]
				if or.Chance(1, 3) {
					last = w[:1]
				}
			}
			argv = append(argv, last)
			sc.Ops = append(sc.Ops, Op{Kind: "setenv", Key: "GO_FLAGS_COMPLETION", Text: BStr(or.Pick([]string{"1", "verbose"}))},
				Op{Kind: "parse", Argv: bstrs(argv)},
				Op{Kind: "unsetenv", Key: "GO_FLAGS_COMPLETION"})
		case 8:
			ois := optInfos(sc.Decl)
			if len(ois) > 0 {
				oi := ois[or.Intn(len(ois))]
				if !isFuncKind(oi.O.Kind) {
					v := genStoreValue(or, oi.O.Kind, false)
					if isMapKind(oi.O.Kind) || isSliceKind(oi.O.Kind) {
						g := &declGen{r: or}
						v = g.multiInit(oi.O.Kind)
						if mk := or.Fork(fmt.Sprint("mixedkeys", i)); isMapKind(oi.O.Kind) && mapKeyKind(oi.O.Kind) == "string" && len(v.L) > 0 && mk.Chance(1, 3) {
							// keys that are numbers next to keys that only start like one
							for len(v.L) < 3 {
								v.L = append(v.L, v.L[0])
							}
							v.K = nil
							for j := range v.L {
								v.K = append(v.K, V{T: BStr([]string{"10", "2", "1a", "9", "1b"}[j%5])})
							}
						}
					}
					sc.Ops = append(sc.Ops, Op{Kind: "store", Path: oi.Path, Val: &v})
				}
			}
		}
	}
	if rr := r.Fork("reread"); rr.Chance(1, 8) {
		// a configuration file is read, rewritten by someone else - to the same
		// length, within the granularity of the file system's time stamps - and read
		// again through the IniParser the program kept
		a, b := genIniForDecl(rr, sc.Decl, false), genIniForDecl(rr, sc.Decl, false)
		for len(a) < len(b) {
			a += "\n"
		}
		for len(b) < len(a) {
			b += "\n"
		}
		first := Op{Kind: "iniread", File: "conf/re.ini", Data: BStr(a), Rewrite: true}
		second := Op{Kind: "iniread", File: "conf/re.ini", Data: BStr(b), Rewrite: true, AsDefaults: rr.Chance(1, 4)}
		at := rr.Intn(len(sc.Ops) + 1)
		ops := append(append(append([]Op{}, sc.Ops[:at]...), first), sc.Ops[at:]...)
		at2 := at + 1 + rr.Intn(len(ops)-at)
		sc.Ops = append(append(append([]Op{}, ops[:at2]...), second), ops[at2:]...)
	}
	if cr := r.Fork("ownerr"); cr.Chance(1, 8) {
		// commands that fail, every time they are run, with the very same error value
		// (a program's package-level `var errX = &flags.Error{...}`)
		sc.Callee = []CalleeFault{{Kind: "execute", Nth: -1, ID: 100 + cr.Intn(900),
			Form: cr.Pick([]string{"", "flags:marshal", "flags:unknown", "flags:required", "wrap:marshal", "flags:marshal"})}}
	}
	if pr := r.Fork("calleepanic"); len(sc.Callee) == 0 && pr.Chance(1, 10) {
		// a value type or an option callback of the program that panics: whatever the
		// library makes of that, it makes the same of it every time
		sc.Callee = []CalleeFault{{Kind: pr.Pick([]string{"unmarshal", "callback", "validate"}), Nth: -1, ID: 100 + pr.Intn(900), Form: "panic"}}
	}
	k := 6
	if tier == "thorough" {
		k = 16
	}
	sr := r.Fork("sched")
	sc.Scheds = []*simrt.Schedule{{Mode: "id"}, {Mode: "rev"}}
	for i := 2; i < k; i++ {
		if i == 2 {
			sc.Scheds = append(sc.Scheds, &simrt.Schedule{Mode: "rot", K: 1})
			continue
		}
		sc.Scheds = append(sc.Scheds, &simrt.Schedule{Mode: "seeded", Seed: sr.U64()})
	}
	return sc
}

// observable projects an outcome onto what C15 calls observable.
func c15Observable(o *Outcome) []string {
	var out []string
	out = append(out, "declerr="+o.DeclErr)
	for i, op := range o.Ops {
		p := fmt.Sprintf("op%d:%s:", i, op.Op)
		out = append(out,
			p+"err="+op.Err+"/"+op.ErrType+"/"+fmt.Sprint(op.Line)+"/"+op.ErrFile,
			p+"msg="+string(op.Msg),
			p+"rest="+mustJSON(op.Rest),
			p+"out="+string(op.Out),
			p+"fd1="+string(op.Fd1),
			p+"fd2="+string(op.Fd2),
			p+"end="+fmt.Sprintf("panic=%q exit=%v/%d budget=%v crash=%v skipped=%v", op.Panic, op.Exit, op.ExitCode, op.Budget, op.Crash, op.Skipped),
			p+"calls="+mustJSON(op.Calls),
			p+"values="+strings.Join(op.Values, "\n"),
		)
	}
	out = append(out, "completions="+mustJSON(o.Completions))
	// what the history left on the disk (INI files written with WriteFile)
	var names []string
	for n := range o.Files {
		names = append(names, n)
	}
	sort.Strings(names)
	for _, n := range names {
		out = append(out, "file:"+n+"="+string(o.Files[n]))
	}
	return out
}

func (propC15) Judge(sc *Scenario) *Verdict {
	v := &Verdict{OK: true}
	var base []string
	var baseOut *Outcome
	permuted := 0
	sites := map[string]bool{}
	// the first schedule is executed twice: a difference there is instability
	// that has nothing to do with map order (e.g. a pointer value printed)
	scheds := sc.Scheds
	if len(scheds) > 0 {
		scheds = append([]*simrt.Schedule{scheds[0], scheds[0]}, scheds[1:]...)
	}
	for i, s := range scheds {
		o := Execute(sc, s)
		v.Evals++
		v.addStats(o.Stats)
		if o.HarnessPanic != "" {
			return harnessTrouble(v, o.HarnessPanic)
		}
		for j, p := range o.Sched {
			if len(p) >= 2 {
				sites[o.SchedSites[j]] = true
				if !isIdentityPerm(p) {
					permuted++
				}
				if len(p) <= 4 {
					// coverage cell: which orders each woven site was actually driven through
					v.stat(fmt.Sprintf("cell.%s:%v", o.SchedSites[j], p))
				}
			}
		}
		obs := c15Observable(o)
		if i == 0 {
			base, baseOut = obs, o
			continue
		}
		for j := range obs {
			if j >= len(base) || obs[j] != base[j] {
				field := strings.SplitN(obs[j], "=", 2)[0]
				// class: op kind + field, without the op index (stable under shrinking)
				parts := strings.Split(field, ":")
				cls := field
				if len(parts) == 3 {
					cls = parts[1] + ":" + parts[2]
				}
				v.OK = false
				v.Class = "c15:order-dependent:" + cls
				if i == 1 {
					v.Class = "c15:unstable-under-same-schedule:" + cls
				}
				v.Msg = fmt.Sprintf("executions #0 (schedule %s) and #%d (schedule %s) disagree on %s:\n  A: %s\n  B: %s\n  map-range events under B: %v %v",
					schedName(scheds[0]), i, schedName(s), field, clip(after(base[j]), 600), clip(after(obs[j]), 600), o.SchedSites, o.Sched)
				v.Detail = map[string]interface{}{"schedule_a": scheds[0], "schedule_b": s, "applied_b": o.Sched, "sites_b": o.SchedSites}
				break
			}
		}
		if !v.OK {
			break
		}
	}
	// clock-jump twin: with the environment held fixed, nothing but the date
	// line of a man page written without SOURCE_DATE_EPOCH may depend on the
	// wall clock.
	if v.OK && len(sc.Scheds) > 0 {
		sc2 := *sc
		sc2.World.Now = sc.World.Now + 400*86400 + 3601
		if sc2.World.Now == 400*86400+3601 {
			sc2.World.Now += 1700000000
		}
		o := Execute(&sc2, sc.Scheds[0])
		v.Evals++
		v.stat("twin.clock-jump")
		obs := c15Observable(o)
		sde := string(sc.World.Env["SOURCE_DATE_EPOCH"])
		for _, op := range sc.Ops {
			if op.Kind == "setenv" && op.Key == "SOURCE_DATE_EPOCH" || op.Kind == "unsetenv" && op.Key == "SOURCE_DATE_EPOCH" {
				sde = "" // changes mid-history: do not judge man output
			}
		}
		for j := range obs {
			if j < len(base) && obs[j] == base[j] {
				continue
			}
			field := strings.SplitN(obs[j], "=", 2)[0]
			parts := strings.Split(field, ":")
			if len(parts) == 3 && parts[1] == "man" && parts[2] == "out" && sde == "" {
				continue // today's date, by design
			}
			cls := field
			if len(parts) == 3 {
				cls = parts[1] + ":" + parts[2]
			}
			v.OK = false
			v.Class = "c15:clock-dependent:" + cls
			v.Msg = fmt.Sprintf("same scenario, same schedule, same environment (SOURCE_DATE_EPOCH=%q), simulated clock moved from %d to %d: %s differs:\n  A: %s\n  B: %s",
				sde, sc.World.Now, sc2.World.Now, field, clip(after(base[j]), 600), clip(after(obs[j]), 600))
			break
		}
	}
	// observer twin: rendering help, the man page or the INI text observes the
	// parser; inserting such an evaluation must not change what any other
	// operation of the history produces (repeated evaluations agree).
	firstParse := -1
	for i, op := range sc.Ops {
		if op.Kind == "parse" && firstParse < 0 {
			firstParse = i
		}
	}
	// (inserted only after the first ParseArgs of the history: ParseArgs itself
	// completes the declaration, e.g. by adding the built-in help group, and an
	// implementation may well let WriteHelp do the same)
	if v.OK && firstParse >= 0 && len(sc.Scheds) > 0 {
		pos := firstParse + 1 + int(hashStr(mustJSON(sc.Ops))%uint64(len(sc.Ops)-firstParse))
		sc3 := *sc
		obsOps := []Op{{Kind: "help"}, {Kind: "man"}, {Kind: "iniwrite", IniOpts: iniIncludeDefaults | iniIncludeComments}, {Kind: "iniwrite"}}
		sc3.Ops = append(append(append([]Op{}, sc.Ops[:pos]...), obsOps...), sc.Ops[pos:]...)
		o := Execute(&sc3, sc.Scheds[0])
		v.Evals++
		v.stat("twin.observer-insertion")
		if o.HarnessPanic != "" {
			return harnessTrouble(v, o.HarnessPanic)
		}
		// drop the inserted operations' results and compare the rest
		o2 := *o
		o2.Ops = append(append([]OpResult{}, o.Ops[:pos]...), o.Ops[pos+len(obsOps):]...)
		obs := c15Observable(&o2)
		dead := false
		for _, r := range o.Ops[pos : pos+len(obsOps)] {
			if r.Panic != "" || r.Exit || r.Budget {
				dead = true // e.g. an invalid SOURCE_DATE_EPOCH makes the man page panic by design of the tree
			}
		}
		for j := range obs {
			if dead || (j < len(base) && obs[j] == base[j]) {
				continue
			}
			field := strings.SplitN(obs[j], "=", 2)[0]
			parts := strings.Split(field, ":")
			cls := field
			if len(parts) == 3 {
				cls = parts[1] + ":" + parts[2]
			}
			bj := ""
			if j < len(base) {
				bj = base[j]
			}
			v.OK = false
			v.Class = "c15:depends-on-earlier-evaluation:" + cls
			v.Msg = fmt.Sprintf("the same history with WriteHelp, WriteManPage and two INI writes inserted before operation %d gives a different %s:\n  without: %s\n  with:    %s", pos, field, clip(after(bj), 600), clip(after(obs[j]), 600))
			break
		}
	}
	// diff reports the first observable in which obs departs from base.
	diff := func(obs []string) (field, cls, a, b string, differs bool) {
		for j := range obs {
			if j < len(base) && obs[j] == base[j] {
				continue
			}
			field = strings.SplitN(obs[j], "=", 2)[0]
			parts := strings.Split(field, ":")
			cls = field
			if len(parts) == 3 {
				cls = parts[1] + ":" + parts[2]
			}
			if j < len(base) {
				a = base[j]
			}
			return field, cls, clip(after(a), 600), clip(after(obs[j]), 600), true
		}
		return
	}
	// same-arguments twin: a program evaluates the same argument vector twice (the
	// very same slices); the second evaluation must give what the first gave.
	if v.OK && firstParse >= 0 && len(sc.Scheds) > 0 {
		sc4 := *sc
		sc4.argvShare = map[*Op][]string{}
		Execute(&sc4, sc.Scheds[0])
		o := Execute(&sc4, sc.Scheds[0])
		v.Evals += 2
		v.stat("twin.same-argument-slices-again")
		if o.HarnessPanic != "" {
			return harnessTrouble(v, o.HarnessPanic)
		}
		if field, cls, a, b, differs := diff(c15Observable(o)); differs {
			v.OK = false
			v.Class = "c15:second-evaluation-of-the-same-arguments-differs:" + cls
			v.Msg = fmt.Sprintf("the scenario was evaluated twice with the very same argument slices handed to ParseArgs; the second evaluation gives a different %s:\n  first:  %s\n  second: %s", field, a, b)
		}
	}
	// other-parser twin: a second, unrelated parser is declared and used between
	// the operations; nothing the scenario's parser produces may change.
	if v.OK && firstParse >= 0 && len(sc.Scheds) > 0 {
		sc5 := *sc
		sc5.Ops = nil
		for i := range sc.Ops {
			dop := Op{Kind: "decoy"}
			if sc.Ops[i].Kind == "parse" {
				dop.Argv = sc.Ops[i].Argv
			}
			if i == 0 || i == len(sc.Ops)-1 {
				sc5.Ops = append(sc5.Ops, Op{Kind: "decoy", Sibling: true})
			}
			sc5.Ops = append(sc5.Ops, dop, sc.Ops[i])
		}
		o := Execute(&sc5, sc.Scheds[0])
		v.Evals++
		v.stat("twin.other-parser-in-between")
		if o.HarnessPanic != "" {
			return harnessTrouble(v, o.HarnessPanic)
		}
		o2 := *o
		o2.Ops = nil
		dead := false
		for _, r := range o.Ops {
			if r.Op == "decoy" {
				if r.Panic != "" || r.Exit || r.Budget {
					dead = true
				}
				continue
			}
			o2.Ops = append(o2.Ops, r)
		}
		if field, cls, a, b, differs := diff(c15Observable(&o2)); differs && !dead {
			v.OK = false
			v.Class = "c15:depends-on-another-parser:" + cls
			v.Msg = fmt.Sprintf("the same history with a second, unrelated parser declared and used between the operations gives a different %s:\n  without: %s\n  with:    %s", field, a, b)
		}
	}
	// repeat twin: rendering help, man page or INI text, or answering a completion
	// request, a second time right away gives the same bytes / the same list.
	if v.OK && len(sc.Scheds) > 0 {
		var cands []int
		ownErr := map[int]bool{}
		for i, op := range sc.Ops {
			switch {
			case op.Kind == "help" || op.Kind == "man" || op.Kind == "iniwrite":
				cands = append(cands, i)
			case op.Kind == "parse" && i > 0 && sc.Ops[i-1].Kind == "setenv" && sc.Ops[i-1].Key == "GO_FLAGS_COMPLETION" && sc.Decl.CompHandler:
				cands = append(cands, i)
			case op.Kind == "parse" && baseOut != nil && i < len(baseOut.Ops) && baseOut.Ops[i].Err == "flags.Error" && baseOut.Ops[i].ErrType != "help" && baseOut.Ops[i].ErrType != "required" && baseOut.Ops[i].Injected == 0 && len(baseOut.Ops[i].Calls) == 0 &&
				!(i > 0 && sc.Ops[i-1].Kind == "setenv" && sc.Ops[i-1].Key == "GO_FLAGS_COMPLETION"):
				// a command line that the parser itself rejects (no callee involved; not a
				// help request, whose text shows current values, nor a count of positional
				// arguments, which a reused parser keeps adding up) is rejected with the same
				// words when it is handed in again
				cands = append(cands, i)
			case op.Kind == "parse" && baseOut != nil && i < len(baseOut.Ops) && baseOut.Ops[i].Injected != 0 && len(sc.Callee) == 1 && sc.Callee[0].Nth < 0 && sc.Callee[0].Kind == "execute" &&
				!(i > 0 && sc.Ops[i-1].Kind == "setenv" && sc.Ops[i-1].Key == "GO_FLAGS_COMPLETION"):
				// the line was accepted and its command failed with the error value it fails
				// with every time: handed in again, the same words come back
				ownErr[i] = true
				cands = append(cands, i)
			}
		}
		if len(cands) > 0 {
			k := cands[int(hashStr(mustJSON(sc.Ops))%uint64(len(cands)))]
			sc6 := *sc
			sc6.Ops = append(append(append([]Op{}, sc.Ops[:k+1]...), sc.Ops[k]), sc.Ops[k+1:]...)
			o := Execute(&sc6, sc.Scheds[0])
			v.Evals++
			v.stat("twin.repeat:" + sc.Ops[k].Kind)
			if o.HarnessPanic != "" {
				return harnessTrouble(v, o.HarnessPanic)
			}
			if k+1 < len(o.Ops) {
				a, b := o.Ops[k], o.Ops[k+1]
				proj := func(r OpResult) []string {
					return []string{"out=" + string(r.Out), "fd1=" + string(r.Fd1), "fd2=" + string(r.Fd2), "completions=" + mustJSON(r.Comp),
						"err=" + r.Err + "/" + r.ErrType, "msg=" + string(r.Msg)}
				}
				pa, pb := proj(a), proj(b)
				ended := a.Panic != "" || a.Exit || a.Budget || a.Skipped || b.Skipped || a.Inconclusive || b.Inconclusive
				if ownErr[k] && (a.Injected == 0 || a.Injected != b.Injected) {
					ended = true // the second evaluation did not get as far as the command (a reused parser remembers)
				}
				for j := range pa {
					if !ended && pa[j] != pb[j] {
						field := strings.SplitN(pa[j], "=", 2)[0]
						v.OK = false
						v.Class = "c15:repeated-evaluation-differs:" + sc.Ops[k].Kind + ":" + field
						v.Msg = fmt.Sprintf("operation %d (%s) was evaluated twice in a row on the same parser; %s differs:\n  first:  %s\n  second: %s", k, sc.Ops[k].Kind, field, clip(after(pa[j]), 600), clip(after(pb[j]), 600))
						break
					}
				}
			}
		}
	}
	// fresh-IniParser twin: what a file means is a function of its bytes; read
	// through an IniParser that has read the file before (when it had other
	// contents of the same length) it means the same as through a new one.
	if v.OK && len(sc.Scheds) > 0 {
		sc9 := *sc
		sc9.Ops = nil
		n := 0
		for _, op := range sc.Ops {
			if op.Kind == "iniread" && op.File != "" {
				if n > 0 {
					sc9.Ops = append(sc9.Ops, Op{Kind: "newini"})
				}
				n++
			}
			sc9.Ops = append(sc9.Ops, op)
		}
		if n > 1 {
			o := Execute(&sc9, sc.Scheds[0])
			v.Evals++
			v.stat("twin.file-reread-through-a-new-IniParser")
			if o.HarnessPanic != "" {
				return harnessTrouble(v, o.HarnessPanic)
			}
			o2 := *o
			o2.Ops = nil
			for _, r := range o.Ops {
				if r.Op != "newini" {
					o2.Ops = append(o2.Ops, r)
				}
			}
			// (what an IniParser remembers about the files it read - key spellings, quoting
			// style - may legitimately show in what it writes later: only what the reads
			// and the command lines mean is compared)
			keep := func(obs []string) []string {
				var out []string
				for _, s := range obs {
					f := strings.SplitN(s, "=", 2)[0]
					if strings.HasPrefix(f, "file:") || strings.Contains(f, ":iniwrite:") || strings.Contains(f, ":help:") || strings.Contains(f, ":man:") {
						s = f + "=(not compared)"
					}
					out = append(out, s)
				}
				return out
			}
			saved := base
			base = keep(base)
			field, cls, a, b, differs := diff(keep(c15Observable(&o2)))
			base = saved
			if differs {
				v.OK = false
				v.Class = "c15:file-reread-depends-on-earlier-read:" + cls
				v.Msg = fmt.Sprintf("a file was read, rewritten (same length, same time stamp) and read again through the same IniParser; with a new IniParser for the second read the history gives a different %s:\n  kept IniParser: %s\n  new IniParser:  %s", field, a, b)
			}
		}
	}
	// delivery twin: how the reader hands over the INI bytes (all at once or in
	// small pieces) is incidental; nothing observable may depend on it.
	if v.OK && len(sc.Scheds) > 0 {
		sc7 := *sc
		sc7.Ops = append([]Op{}, sc.Ops...)
		n := 0
		for i := range sc7.Ops {
			op := &sc7.Ops[i]
			if op.Kind == "iniread" && len(op.Chunks) == 0 && op.FailAt == 0 && op.Rest == 0 {
				op.Rest = 1 + int(hashStr(string(op.Data))%1500)
				if hashStr(string(op.Data))%3 == 0 {
					op.Rest = 1
				}
				n++
			}
		}
		if n > 0 {
			o := Execute(&sc7, sc.Scheds[0])
			v.Evals++
			v.stat("twin.reader-delivery")
			if o.HarnessPanic != "" {
				return harnessTrouble(v, o.HarnessPanic)
			}
			if field, cls, a, b, differs := diff(c15Observable(o)); differs {
				v.OK = false
				v.Class = "c15:depends-on-reader-delivery:" + cls
				v.Msg = fmt.Sprintf("the same history with the INI bytes delivered in small pieces instead of all at once gives a different %s:\n  at once: %s\n  pieces:  %s", field, a, b)
			}
		}
	}
	// fresh-parser twin: the answer to a completion request is a function of the
	// declarations, the environment and the words; asked of a parser that has
	// served nothing before, it is the same.
	if v.OK && len(sc.Scheds) > 0 && baseOut != nil && sc.Decl.CompHandler {
		for k, op := range sc.Ops {
			if !(op.Kind == "parse" && k > 0 && sc.Ops[k-1].Kind == "setenv" && sc.Ops[k-1].Key == "GO_FLAGS_COMPLETION") || k >= len(baseOut.Ops) {
				continue
			}
			served := false
			sc8 := *sc
			sc8.Ops = nil
			for _, e := range sc.Ops[:k] {
				switch e.Kind {
				case "store", "setenv", "unsetenv":
					sc8.Ops = append(sc8.Ops, e)
				default:
					served = true
				}
			}
			if !served {
				continue
			}
			sc8.Ops = append(sc8.Ops, op)
			o := Execute(&sc8, sc.Scheds[0])
			v.Evals++
			v.stat("twin.completion-on-fresh-parser")
			if o.HarnessPanic != "" {
				return harnessTrouble(v, o.HarnessPanic)
			}
			a, b := baseOut.Ops[k], o.Ops[len(o.Ops)-1]
			if a.Skipped || b.Skipped || a.Panic != "" || b.Panic != "" || a.Budget || b.Budget || a.Inconclusive || b.Inconclusive {
				break
			}
			items := func(cs []BStr) string {
				// the words offered; their descriptions may show current values, as the help does
				var ws []string
				for _, c := range cs {
					ws = append(ws, strings.SplitN(string(c), "\t", 2)[0])
				}
				return mustJSON(ws)
			}
			if items(a.Comp) != items(b.Comp) {
				v.OK = false
				v.Class = "c15:completion-depends-on-earlier-calls"
				v.Msg = fmt.Sprintf("completion request %q (operation %d): the list differs from the one a parser that has served nothing before gives for the same words, environment and stored values:\n  in the history: %s\n  fresh parser:   %s", strs(op.Argv), k, clip(mustJSON(a.Comp), 600), clip(mustJSON(b.Comp), 600))
			}
			break
		}
	}
	var kinds []string
	for _, op := range sc.Ops {
		kinds = append(kinds, op.Kind)
	}
	kset := map[string]bool{}
	for _, k := range kinds {
		kset[k] = true
	}
	v.Sig = "C15|" + strings.Join(sortedKeys(kset), ",") + "|" + strings.Join(sortedKeys(boolMap(sites)), ",")
	v.NonTrivial = len(sites) > 0 && permuted > 0
	return v
}

func after(s string) string {
	if i := strings.Index(s, "="); i >= 0 {
		return s[i+1:]
	}
	return s
}

func schedName(s *simrt.Schedule) string {
	if s == nil {
		return "id"
	}
	if s.Explicit != nil {
		return fmt.Sprintf("explicit%v", s.Explicit)
	}
	switch s.Mode {
	case "seeded":
		return fmt.Sprintf("seeded:%d", s.Seed)
	case "rot":
		return fmt.Sprintf("rot:%d", s.K)
	}
	if s.Mode == "" {
		return "id"
	}
	return s.Mode
}

func isIdentityPerm(p []int) bool {
	for i, x := range p {
		if i != x {
			return false
		}
	}
	return true
}

func boolMap(m map[string]bool) map[string]bool { return m }

// Shrink hooks: C15 replaces the compared schedules by {id, explicit(applied)}
// and blanks permutations one by one.
func (propC15) Reductions(sc *Scenario) []func(*Scenario) bool {
	var out []func(*Scenario) bool
	// keep only two schedules: the first and each other one in turn
	for i := 1; i < len(sc.Scheds); i++ {
		i := i
		if len(sc.Scheds) > 2 {
			out = append(out, func(s *Scenario) bool {
				if i >= len(s.Scheds) {
					return false
				}
				s.Scheds = []*simrt.Schedule{s.Scheds[0], s.Scheds[i]}
				return true
			})
		}
	}
	if len(sc.Scheds) == 2 && sc.Scheds[1].Explicit == nil {
		out = append(out, func(s *Scenario) bool {
			o := Execute(s, s.Scheds[1])
			s.Scheds[1] = &simrt.Schedule{Explicit: o.Sched}
			if s.Scheds[1].Explicit == nil {
				s.Scheds[1].Explicit = [][]int{}
			}
			return true
		})
	}
	if len(sc.Scheds) == 2 && sc.Scheds[1].Explicit != nil {
		for i, p := range sc.Scheds[1].Explicit {
			if p == nil || isIdentityPerm(p) {
				continue
			}
			i := i
			out = append(out, func(s *Scenario) bool {
				if i >= len(s.Scheds[1].Explicit) {
					return false
				}
				s.Scheds[1].Explicit[i] = nil
				return true
			})
		}
	}
	return out
}
