// simexec is the simulation harness, linked against a woven copy of go-flags.
// It is built and driven by bin/simcheck.
package main

import (
	"encoding/json"
	"flag"
	"fmt"
	"io/ioutil"
	"os"
	"path/filepath"
	"runtime"
	"runtime/debug"
	"sort"
	"strings"
	"syscall"
	"time"
)

type ViolationRec struct {
	Class  string `json:"class"`
	Msg    string `json:"msg"`
	Replay string `json:"replay"`
	Known  string `json:"known,omitempty"` // id of the known finding it matches
	Seed   uint64 `json:"seed"`
	Index  int    `json:"index"`
	Shrink string `json:"shrink,omitempty"`
}

type WorkerResult struct {
	Prop       string            `json:"prop"`
	Tier       string            `json:"tier"`
	Seed       uint64            `json:"seed"`
	Worker     int               `json:"worker"`
	Workers    int               `json:"workers"`
	Runs       int               `json:"runs"`
	Evals      int               `json:"evals"`
	OpsRun     int               `json:"ops_run"`
	Sigs       map[string]bool   `json:"sigs"` // signature hash → non-trivial
	Stats      map[string]int    `json:"stats"`
	NotJudged  map[string]int    `json:"not_judged"`
	Samples    []json.RawMessage `json:"samples"`
	Violations []ViolationRec    `json:"violations"`
	Trouble    string            `json:"trouble,omitempty"`
	WallS      float64           `json:"wall_s"`
	TraceHash  uint64            `json:"trace_hash"` // fold of all verdict-relevant hashes: determinism self-test
}

// ReplayFile is what a violation is reported as.
type ReplayFile struct {
	Property string    `json:"property"`
	Class    string    `json:"class"`
	Message  string    `json:"message"`
	Seed     uint64    `json:"seed"`
	Index    int       `json:"index"`
	Tier     string    `json:"tier"`
	Shrink   string    `json:"shrink"`
	Scenario *Scenario `json:"scenario"`
}

// Real descriptors 1 and 2 of the worker process are redirected to a capture
// file: the library is supposed to write through os.Stdout / os.Stderr /
// fmt.Print* (all woven onto the simulated sinks); anything that arrives on the
// real descriptors bypassed those (package log, the print builtins, os.NewFile,
// raw syscalls) and is attributed to the scenario being judged.
var (
	captureFile *os.File
	captureSize int64
	realStdout  = os.Stdout
	realStderr  = os.Stderr
)

func captureRealFds(path string) {
	f, err := os.OpenFile(path, os.O_RDWR|os.O_CREATE|os.O_TRUNC, 0600)
	if err != nil {
		return
	}
	if fd, err := syscall.Dup(1); err == nil {
		realStdout = os.NewFile(uintptr(fd), "real-stdout")
	}
	if fd, err := syscall.Dup(2); err == nil {
		realStderr = os.NewFile(uintptr(fd), "real-stderr")
	}
	syscall.Dup2(int(f.Fd()), 1)
	syscall.Dup2(int(f.Fd()), 2)
	captureFile = f
}

func capturedSince() string {
	if captureFile == nil {
		return ""
	}
	st, err := captureFile.Stat()
	if err != nil || st.Size() <= captureSize {
		return ""
	}
	buf := make([]byte, st.Size()-captureSize)
	captureFile.ReadAt(buf, captureSize)
	captureSize = st.Size()
	return string(buf)
}

func judgeSafely(p Property, sc *Scenario) (v *Verdict) {
	defer func() {
		if r := recover(); r != nil {
			v = &Verdict{OK: true, Trouble: fmt.Sprintf("harness panic in judge: %v\n%s", r, debug.Stack())}
		}
	}()
	capturedSince()
	inconclusiveOps = 0
	v = p.Judge(sc)
	if inconclusiveOps > 0 && v.Trouble == "" {
		// never report on the strength of an operation that was merely too slow to finish
		v = &Verdict{OK: true, NotJudged: "inconclusive: an operation was cut off by the wall-clock backstop", Sig: v.Sig, Evals: v.Evals, Stats: v.Stats}
	}
	if leaked := capturedSince(); leaked != "" {
		v.stat("probe.output-on-real-descriptor")
		if sc.Prop == "C04" {
			v.fail("c04:output-bypasses-os.Stdout-os.Stderr", fmt.Sprintf("while this scenario ran, %d bytes reached the process's real descriptor 1/2 without passing os.Stdout / os.Stderr (e.g. package log, print/println, os.NewFile): %s", len(leaked), q(clip(leaked, 400))))
		}
	}
	return v
}

func scenarioSeed(seed uint64, prop string, idx int) uint64 {
	return mix64(seed*0x9E3779B97F4A7C15 ^ hashStr(prop) ^ uint64(idx)*0xD1B54A32D192ED03)
}

func checkConstants() {}

func main() {
	if len(os.Args) < 2 {
		fmt.Fprintln(os.Stderr, "usage: simexec run|replay|gen ...")
		os.Exit(2)
	}
	checkConstants()
	debug.SetGCPercent(200)
	switch os.Args[1] {
	case "run":
		os.Exit(mainRun(os.Args[2:]))
	case "replay":
		os.Exit(mainReplay(os.Args[2:]))
	case "gen":
		os.Exit(mainGen(os.Args[2:]))
	case "obs":
		os.Exit(mainObs(os.Args[2:]))
	case "seq":
		os.Exit(mainSeq(os.Args[2:]))
	}
	fmt.Fprintln(os.Stderr, "simexec: unknown command", os.Args[1])
	os.Exit(2)
}

// mainSeq re-runs, in this fresh process, the scenarios from..to (step = workers) of
// a batch in order, without shrinking, and reports the verdict of the last one: the
// reproduction recipe for a violation that needs state left behind by earlier
// scenarios in the same process (a package-level cache or pool in the library).
func mainSeq(args []string) int {
	fs := flag.NewFlagSet("seq", flag.ExitOnError)
	prop := fs.String("prop", "", "")
	tier := fs.String("tier", "quick", "")
	seed := fs.Uint64("seed", 1, "")
	from := fs.Int("from", 0, "")
	to := fs.Int("to", 0, "")
	step := fs.Int("step", 1, "")
	class := fs.String("class", "", "")
	knownPath := fs.String("known", "", "")
	fs.Parse(args)
	p := properties[*prop]
	if p == nil || *step < 1 {
		return 2
	}
	knownGlobal = loadKnown(*knownPath)
	var v *Verdict
	for idx := *from; idx <= *to; idx += *step {
		sc := p.Gen(NewRng(scenarioSeed(*seed, *prop, idx)), idx, *tier)
		sc.Seed, sc.Index = *seed, idx
		sc = cloneJSON(sc)
		v = judgeSafely(p, sc)
		if v.Trouble != "" {
			fmt.Fprintln(os.Stderr, "simexec: trouble:", v.Trouble)
			return 2
		}
	}
	if v == nil || v.OK {
		fmt.Printf("SEQ-OK the last scenario of the sequence %d..%d (step %d) holds\n", *from, *to, *step)
		return 0
	}
	fmt.Printf("violation class=%s (after scenarios %d..%d step %d of seed %d ran in the same process)\n%s\n", v.Class, *from, *to, *step, *seed, v.Msg)
	if *class != "" && v.Class != *class {
		return 3
	}
	return 1
}

// mainObs prints everything observable of a replay file's scenario under its
// first schedule; the driver diffs the output of two OS processes.
func mainObs(args []string) int {
	if len(args) < 1 {
		return 2
	}
	b, err := ioutil.ReadFile(args[0])
	if err != nil {
		fmt.Fprintln(os.Stderr, "simexec:", err)
		return 2
	}
	var rf ReplayFile
	if err := json.Unmarshal(b, &rf); err != nil || rf.Scenario == nil {
		fmt.Fprintln(os.Stderr, "simexec: bad replay file")
		return 2
	}
	var s *simrtSchedule
	if len(rf.Scenario.Scheds) > 0 {
		s = rf.Scenario.Scheds[0]
	}
	o := Execute(rf.Scenario, s)
	if o.HarnessPanic != "" {
		fmt.Fprintln(os.Stderr, "simexec: trouble:", o.HarnessPanic)
		return 2
	}
	for _, l := range c15Observable(o) {
		fmt.Println(strings.ReplaceAll(l, "\n", "\\n"))
	}
	return 0
}

func mainGen(args []string) int {
	fs := flag.NewFlagSet("gen", flag.ExitOnError)
	prop := fs.String("prop", "", "")
	seed := fs.Uint64("seed", 1, "")
	idx := fs.Int("index", 0, "")
	tier := fs.String("tier", "quick", "")
	asReplay := fs.String("as-replay", "", "write the scenario as a replay file of this class instead of printing it")
	outFile := fs.String("o", "", "")
	fs.Parse(args)
	p := properties[*prop]
	if p == nil {
		fmt.Fprintln(os.Stderr, "unknown property")
		return 2
	}
	sc := p.Gen(NewRng(scenarioSeed(*seed, *prop, *idx)), *idx, *tier)
	sc.Seed, sc.Index = *seed, *idx
	if *asReplay != "" {
		rf := ReplayFile{Property: *prop, Class: *asReplay, Message: "outcome differs between two OS processes running the same scenario and schedule", Seed: *seed, Index: *idx, Tier: *tier, Scenario: sc}
		b, _ := json.MarshalIndent(rf, "", " ")
		if err := ioutil.WriteFile(*outFile, b, 0644); err != nil {
			fmt.Fprintln(os.Stderr, "simexec:", err)
			return 2
		}
		return 0
	}
	b, _ := json.MarshalIndent(sc, "", " ")
	fmt.Println(string(b))
	v := judgeSafely(p, sc)
	fmt.Fprintf(os.Stderr, "verdict: ok=%v class=%s notjudged=%q trouble=%q nontrivial=%v sig=%s\n%s\n", v.OK, v.Class, v.NotJudged, v.Trouble, v.NonTrivial, v.Sig, v.Msg)
	return 0
}

func mainRun(args []string) int {
	fs := flag.NewFlagSet("run", flag.ExitOnError)
	prop := fs.String("prop", "", "")
	tier := fs.String("tier", "quick", "")
	seed := fs.Uint64("seed", 1, "")
	worker := fs.Int("worker", 0, "")
	workers := fs.Int("workers", 1, "")
	count := fs.Int("count", 1000, "total scenarios over all workers")
	outPath := fs.String("out", "", "")
	replays := fs.String("replays", "replays", "")
	knownPath := fs.String("known", "", "")
	maxSec := fs.Float64("max-seconds", 0, "stop generating new scenarios after this many seconds (0 = never)")
	shrinkSec := fs.Float64("shrink-seconds", 20, "")
	hashesPath := fs.String("hashes", "", "determinism self-test: write per-scenario outcome hashes here")
	capPath := fs.String("capture-fds", "", "redirect this process's real fd 1/2 to this file and watch it")
	obsOnly := fs.Bool("obs-hashes", false, "with --hashes: hash the observable outcome only (no step counts, no seam trace)")
	reverse := fs.Bool("reverse", false, "run this worker's scenarios from the last to the first (what the process has seen before differs then)")
	fs.Parse(args)
	if *capPath != "" {
		captureRealFds(*capPath)
	}
	obsHashOnly = *obsOnly
	perIndex := map[string]string{}
	p := properties[*prop]
	if p == nil {
		fmt.Fprintln(os.Stderr, "simexec: unknown property", *prop)
		return 2
	}
	knownGlobal = loadKnown(*knownPath)
	res := &WorkerResult{Prop: *prop, Tier: *tier, Seed: *seed, Worker: *worker, Workers: *workers,
		Sigs: map[string]bool{}, Stats: map[string]int{}, NotJudged: map[string]int{}}
	t0 := time.Now()
	avoid := map[string]bool{}
	var order []int
	for idx := *worker; idx < *count; idx += *workers {
		order = append(order, idx)
	}
	if *reverse {
		for i, j := 0, len(order)-1; i < j; i, j = i+1, j-1 {
			order[i], order[j] = order[j], order[i]
		}
	}
	for _, idx := range order {
		if *maxSec > 0 && time.Since(t0).Seconds() > *maxSec {
			res.Stats["stopped-by-time"]++
			break
		}
		sc := p.Gen(NewRng(scenarioSeed(*seed, *prop, idx)), idx, *tier)
		sc.Seed, sc.Index = *seed, idx
		// judge exactly what a replay file would carry: the scenario after a JSON round trip
		sc = cloneJSON(sc)
		var hs []uint64
		if *hashesPath != "" {
			execHashes = &hs
		}
		v := judgeSafely(p, sc)
		execHashes = nil
		if *hashesPath != "" {
			h := hashStr(mustJSON(sc)) ^ hashStr(v.Sig+"|"+v.Class+"|"+v.Msg+"|"+v.NotJudged)
			if obsHashOnly {
				h = hashStr(mustJSON(sc)) ^ hashStr(v.Class+"|"+v.NotJudged) // (the signature names the map-range sites visited: cost, not outcome)
			}
			for i, x := range hs {
				h = mix64(h ^ x ^ uint64(i))
			}
			perIndex[fmt.Sprint(idx)] = fmt.Sprintf("%016x/%d", h, len(hs))
			if !v.OK {
				continue // the self-test does not shrink
			}
		}
		res.Runs++
		res.Evals += v.Evals
		res.OpsRun += opsExecuted
		opsExecuted = 0
		for k, n := range v.Stats {
			res.Stats[k] += n
		}
		if v.Trouble != "" {
			res.Trouble = fmt.Sprintf("seed=%d index=%d: %s", *seed, idx, v.Trouble)
			break
		}
		if v.NotJudged != "" {
			res.NotJudged[v.NotJudged]++
			if os.Getenv("SIM_DEBUG") != "" {
				fmt.Fprintf(os.Stderr, "not judged idx=%d: %s: %s\n", idx, v.NotJudged, v.Msg)
			}
		}
		h := fmt.Sprintf("%016x", hashStr(v.Sig))
		if v.NonTrivial {
			res.Sigs[h] = true
		} else if _, ok := res.Sigs[h]; !ok {
			res.Sigs[h] = false
		}
		res.TraceHash = mix64(res.TraceHash ^ hashStr(v.Sig) ^ hashStr(v.Class) ^ uint64(v.Evals))
		if len(res.Samples) < 2 && v.NonTrivial && v.OK {
			res.Samples = append(res.Samples, sampleOf(sc))
		}
		// known findings hit in this scenario: minimise and record the first of each
		for _, kid := range sortedKeys(v.KnownHits) {
			if avoid[kid] {
				res.Stats["known-finding-again:"+kid]++
				continue
			}
			avoid[kid] = true
			kid := kid
			hit := func(c *Verdict) bool { _, ok := c.KnownHits[kid]; return ok }
			ks := *shrinkSec
			if ks > 3 {
				ks = 3 // a listed finding needs no long minimisation
			}
			msc, mv, st := shrinkBy(p, sc, v, time.Duration(ks*float64(time.Second)), hit)
			rec := ViolationRec{Class: "known:" + kid, Msg: mv.KnownHits[kid], Known: kid, Seed: *seed, Index: idx, Shrink: fmt.Sprintf("tried=%d kept=%d", st.Tried, st.Kept)}
			if err := writeReplay(*replays, *prop, *tier, &rec, msc); err != nil {
				res.Trouble = err.Error()
				break
			}
			res.Violations = append(res.Violations, rec)
		}
		if v.OK || res.Trouble != "" {
			if res.Trouble != "" {
				break
			}
			continue
		}
		cls := v.Class
		msc, mv, st := shrinkBy(p, sc, v, time.Duration(*shrinkSec*float64(time.Second)), func(c *Verdict) bool { return !c.OK && c.Class == cls })
		rec := ViolationRec{Class: mv.Class, Msg: mv.Msg, Seed: *seed, Index: idx, Shrink: fmt.Sprintf("tried=%d kept=%d", st.Tried, st.Kept)}
		if err := writeReplay(*replays, *prop, *tier, &rec, msc); err != nil {
			res.Trouble = err.Error()
			break
		}
		res.Violations = append(res.Violations, rec)
		break // an unlisted violation ends this worker
	}
	res.WallS = time.Since(t0).Seconds()
	if *hashesPath != "" {
		hb, _ := json.Marshal(perIndex)
		if err := ioutil.WriteFile(*hashesPath, hb, 0644); err != nil {
			fmt.Fprintln(os.Stderr, "simexec:", err)
			return 2
		}
	}
	b, _ := json.Marshal(res)
	if *outPath == "" {
		fmt.Fprintln(realStdout, string(b))
	} else if err := ioutil.WriteFile(*outPath, b, 0644); err != nil {
		fmt.Fprintln(os.Stderr, "simexec:", err)
		return 2
	}
	if res.Trouble != "" {
		fmt.Fprintln(realStderr, "simexec: trouble:", res.Trouble)
		return 2
	}
	return 0
}

func writeReplay(dir, prop, tier string, rec *ViolationRec, msc *Scenario) error {
	rf := ReplayFile{Property: prop, Class: rec.Class, Message: rec.Msg, Seed: rec.Seed, Index: rec.Index, Tier: tier, Shrink: rec.Shrink, Scenario: msc}
	b, _ := json.MarshalIndent(rf, "", " ")
	name := fmt.Sprintf("%s-s%d-i%d-%08x.json", prop, rec.Seed, rec.Index, uint32(hashStr(string(b))))
	os.MkdirAll(dir, 0755)
	rec.Replay = filepath.Join(dir, name)
	if err := ioutil.WriteFile(rec.Replay, b, 0644); err != nil {
		return fmt.Errorf("cannot write replay file: %v", err)
	}
	return nil
}

func sampleOf(sc *Scenario) json.RawMessage {
	c := cloneJSON(sc)
	for i := range c.Ops {
		if len(c.Ops[i].Data) > 400 {
			c.Ops[i].Data = BStr(clip(string(c.Ops[i].Data), 400))
		}
		for j := range c.Ops[i].Argv {
			if len(c.Ops[i].Argv[j]) > 200 {
				c.Ops[i].Argv[j] = BStr(clip(string(c.Ops[i].Argv[j]), 200))
			}
		}
		if len(c.Ops[i].Chunks) > 12 {
			c.Ops[i].Chunks = c.Ops[i].Chunks[:12]
		}
	}
	b, _ := json.Marshal(map[string]interface{}{"seed": sc.Seed, "index": sc.Index, "family": sc.Family, "ops": c.Ops, "callee_faults": c.Callee,
		"decl_summary": declSummary(c.Decl), "env": c.World.Env, "payload": c.payloadSummary()})
	return b
}

func declSummary(d *DeclSpec) string {
	if d == nil {
		return ""
	}
	var parts []string
	for _, oi := range optInfos(d) {
		s := oi.O.Kind
		if oi.LongFull != "" {
			s = "--" + oi.LongFull + ":" + s
		} else {
			s = "-" + oi.O.Short + ":" + s
		}
		if len(oi.CmdPath) > 0 {
			s = strings.Join(oi.CmdPath, ".") + "/" + s
		}
		parts = append(parts, s)
	}
	var cmds []string
	for _, c := range d.allCmds() {
		cmds = append(cmds, strings.Join(c.Path, "."))
	}
	sort.Strings(cmds)
	return fmt.Sprintf("options=%#x opts=[%s] cmds=[%s]", d.Options, strings.Join(parts, " "), strings.Join(cmds, " "))
}

// mainReplay re-executes a replay file in this (fresh) process.
func mainReplay(args []string) int {
	fs := flag.NewFlagSet("replay", flag.ExitOnError)
	quiet := fs.Bool("quiet", false, "")
	knownPath := fs.String("known", "", "")
	fs.Parse(args)
	if fs.NArg() < 1 {
		fmt.Fprintln(realStderr, "usage: simexec replay <file>")
		return 2
	}
	if tmp, err := ioutil.TempFile("", "simexec-capture"); err == nil {
		tmp.Close()
		captureRealFds(tmp.Name())
		defer os.Remove(tmp.Name())
	}
	b, err := ioutil.ReadFile(fs.Arg(0))
	if err != nil {
		fmt.Fprintln(realStderr, "simexec:", err)
		return 2
	}
	var rf ReplayFile
	if err := json.Unmarshal(b, &rf); err != nil {
		fmt.Fprintln(realStderr, "simexec: bad replay file:", err)
		return 2
	}
	knownGlobal = loadKnown(*knownPath)
	p := properties[rf.Property]
	if p == nil || rf.Scenario == nil {
		fmt.Fprintln(realStderr, "simexec: replay file names unknown property", rf.Property)
		return 2
	}
	var runs []RunRecord
	if !*quiet {
		recordRuns = &runs
	}
	v := judgeSafely(p, rf.Scenario)
	recordRuns = nil
	if v.Trouble != "" {
		fmt.Fprintln(realStderr, "simexec: trouble:", v.Trouble)
		return 2
	}
	if !*quiet {
		for i, r := range runs {
			fmt.Fprintf(realStdout, "=== execution %d of %d ===\n", i+1, len(runs))
			for j, op := range r.Ops {
				ob, _ := json.Marshal(op)
				fmt.Fprintf(realStdout, "  op%d: %s\n", j, clip(string(ob), 700))
			}
			fmt.Fprintln(realStdout, "  --- event trace ---")
			for _, l := range r.Outcome.Trace {
				fmt.Fprintln(realStdout, "    ", clip(l, 200))
			}
			fmt.Fprintln(realStdout, "  --- operation results ---")
			for j, res := range r.Outcome.Ops {
				rb, _ := json.Marshal(res)
				fmt.Fprintf(realStdout, "    op%d %s\n", j, clip(string(rb), 1500))
			}
		}
	}
	for _, kid := range sortedKeys(v.KnownHits) {
		fmt.Fprintf(realStdout, "KNOWN-FINDING-REPRODUCED property=%s %s: %s\n", rf.Property, kid, v.KnownHits[kid])
	}
	if v.OK {
		if strings.HasPrefix(rf.Class, "known:") {
			if _, ok := v.KnownHits[strings.TrimPrefix(rf.Class, "known:")]; ok {
				return 4
			}
		}
		fmt.Fprintf(realStdout, "REPLAY-OK property=%s recorded_class=%s (the recorded violation does not occur on this tree)\n", rf.Property, rf.Class)
		return 0
	}
	fmt.Fprintf(realStdout, "violation class=%s\n%s\n", v.Class, v.Msg)
	// (a file recorded for a known finding in which, on this tree, a violation that
	// is not listed shows as well: that is a violation like any other)
	same := v.Class == rf.Class || strings.HasPrefix(rf.Class, "known:")
	fmt.Fprintf(realStdout, "REPLAY-VIOLATION property=%s class=%s same_class_as_recorded=%v\n", rf.Property, v.Class, same)
	if !same {
		return 3
	}
	return 1
}

func firstSched(sc *Scenario) (s *simrtSchedule) {
	if sc.Sched != nil {
		return sc.Sched
	}
	if len(sc.Scheds) > 0 {
		return sc.Scheds[len(sc.Scheds)-1]
	}
	return nil
}

var _ = runtime.GOMAXPROCS
