package main

import (
	"fmt"
	"strings"

	"github.com/jessevdk/go-flags/simrt"
)

// C09 — commands run exactly once and only after a fully successful parse.

type C09Payload struct {
	Plan       *Plan      `json:"plan"`
	Faults     []ArgFault `json:"faults,omitempty"`
	First      *Plan      `json:"first,omitempty"` // an earlier fault-free parse on the same parser (reuse)
	Completion string     `json:"completion,omitempty"`
	// CompWhen: "" = GO_FLAGS_COMPLETION is in the environment from process start;
	// "late" = it is set after the parser was constructed; "unset-late" = it is set
	// at start and unset after construction (then the parse is an ordinary one).
	CompWhen  string             `json:"comp_when,omitempty"`
	Fd1Faults []simrt.WriteFault `json:"fd1_faults,omitempty"`
	Fd2Faults []simrt.WriteFault `json:"fd2_faults,omitempty"`
	// EnvLate (with First): the environment variable of an env-unconvertible fault
	// gets its bad value only after the first parse (the parser has applied the
	// option's defaults once already).
	EnvLate bool `json:"env_late,omitempty"`
	// LateGroup (with First): this top-level group is added with AddGroup only
	// after the first parse.
	LateGroup string `json:"late_group,omitempty"`
	// HelpOff (with First, fault = help request): the parser is declared and used
	// once with HelpFlag; the program then clears the bit (Parser.Options is a
	// public field) and the line with the help request is parsed. The built-in
	// option is still there or it is not: either way the line is rejected.
	HelpOff bool `json:"help_off,omitempty"`
	// CompPanic: completion mode, and the word being completed belongs to a
	// top-level option whose Completer panics; the words before it are a valid
	// line. Whatever the library makes of the panic, no command may run.
	CompPanic bool `json:"comp_panic,omitempty"`
}

type propC09 struct{}

func (propC09) ID() string { return "C09" }

func c09Cfg() *DeclCfg {
	return &DeclCfg{
		Kinds: []string{"bool", "bool", "int", "int64", "uint", "float64", "string", "string", "duration", "[]int", "[]string", "map[string]int", "map[string]string",
			"*int", "*bool", "func()", "func(string)", "func(int) error", "func() error", "um", "vv", "[]bool", "int8", "uint8", "uint16", "*um", "[]us", "us"},
		MinOpts: 0, MaxOpts: 3, MaxGroups: 1, MaxSub: 1, MaxCmds: 4, MaxDepth: 4, Exec: true,
		Env: true, Defaults: true, Required: true, Choices: true, Optional: true, Hidden: true, Pos: true, Namespaces: true, Aliases: true, Base: true, MultiByte: true,
		ParserOpts: []uint{0, optHelpFlag, optHelpFlag | optPassDoubleDash, optHelpFlag | optPrintErrors | optPassDoubleDash, optHelpFlag | optIgnoreUnknown,
			optPassAfterNonOption | optHelpFlag, optHelpFlag | optPrintErrors, optPassDoubleDash | optPassAfterNonOption | optHelpFlag | optPrintErrors},
	}
}

// ensureCommands: C09 wants executable commands at every level.
func c09Decl(r *Rng) *DeclSpec {
	for try := 0; ; try++ {
		d := genDecl(r.Fork(fmt.Sprint("decl", try)), c09Cfg())
		if len(d.Commands) > 0 || try > 5 {
			return d
		}
	}
}

func (propC09) Gen(r *Rng, idx int, tier string) *Scenario {
	sc := &Scenario{Prop: "C09", Family: "plan+fault", C09: &C09Payload{}}
	sc.Decl = c09Decl(r)
	hr := r.Fork("handlers")
	switch hr.Intn(4) {
	case 0:
		sc.Decl.CmdHandler = "log"
	case 1:
		sc.Decl.CmdHandler = "forward"
	}
	if hr.Chance(1, 6) {
		sc.Decl.UnknownHandler = "drop"
	} else if hr.Chance(1, 8) {
		sc.Decl.UnknownHandler = "fail" // the handler rejects the option with an error of its own
	}
	sc.Decl.Reenter = hr.Chance(1, 4)
	sc.Decl.CompHandler = hr.Chance(1, 2)
	sc.World = WorldSpec{Cols: 80, Now: 1700000000, Env: map[string]BStr{}}
	p := sc.C09
	if cpr := r.Fork("comppanic"); cpr.Chance(1, 14) && sc.Decl.Root != nil {
		p.CompPanic = true
		sc.Decl.Root.Opts = append(sc.Decl.Root.Opts, &OptSpec{Field: "FCompleterZz", Kind: "cp", Long: "cpzz"})
	}
	p.Plan = genPlan(r.Fork("plan"), sc.Decl)
	fr := r.Fork("faults")
	if fr.Chance(1, 5) {
		p.First = genPlan(r.Fork("first"), sc.Decl)
		lr := r.Fork("late")
		p.EnvLate = lr.Bool()
		if len(sc.Decl.Groups) > 0 && lr.Chance(1, 3) {
			p.LateGroup = sc.Decl.Groups[lr.Intn(len(sc.Decl.Groups))].Name
		}
	}
	if sc.Decl.CmdHandler == "" && p.First == nil && r.Fork("latehandler").Chance(1, 5) {
		sc.Decl.CmdHandler = "late-log"
	}
	// the fault-free twin tells which callees run
	twin := c09Run(sc, p.Plan.argv(), nil, nil, "")
	var twinCalls []Call
	if len(twin.Ops) > 0 {
		twinCalls = lastOp(twin).Calls
	}
	nf := 1
	if tier == "thorough" && fr.Chance(1, 4) {
		nf = fr.Range(2, 3)
	}
	if fr.Chance(1, 12) {
		nf = 0
	}
	for i := 0; i < nf; i++ {
		for try := 0; try < 8; try++ {
			if f, ok := genArgFault(fr, sc.Decl, p.Plan, twinCalls); ok {
				dup := false
				for _, g := range p.Faults {
					if f.Callee != nil && g.Callee != nil && f.Callee.Kind == g.Callee.Kind && f.Callee.Nth == g.Callee.Nth {
						dup = true
					}
				}
				if !dup {
					if f.Callee != nil && (f.Callee.Kind == "execute" || f.Callee.Kind == "handler") && p.First != nil && fr.Bool() {
						f.Callee.Nth = -1 // the command fails every time it is run, with the same error value
						if fr.Chance(1, 3) {
							f.Callee.Form = "uncomparable"
						}
					}
					p.Faults = append(p.Faults, f)
					break
				}
			}
		}
	}
	if fr.Chance(1, 10) {
		p.Completion = fr.Pick([]string{"1", "verbose", "0", "false", "no", "x"})
		p.CompWhen = fr.Pick([]string{"", "late", "unset-late"})
		if p.CompWhen == "unset-late" {
			p.Faults = nil // the line is then expected to run like its twin
		}
	}
	if p.First != nil && len(p.Faults) == 1 && p.Faults[0].Kind == "help" && p.Completion == "" && r.Fork("helpoff").Chance(1, 2) {
		p.HelpOff = true
	}
	if sr := r.Fork("shadow"); sr.Chance(1, 3) && p.First == nil && p.Completion == "" && !p.CompPanic {
		addShadow(sc, sr)
	}
	if p.CompPanic {
		cpr := r.Fork("comppanic2")
		p.Faults = nil
		p.Completion = cpr.Pick([]string{"1", "verbose"})
		p.CompWhen = cpr.Pick([]string{"", "late"})
	}
	if sc.Decl.Options&optPrintErrors != 0 && fr.Chance(1, 4) {
		wf := []simrt.WriteFault{{At: fr.Intn(2), Accept: fr.Pick2([]int{0, 1, 10}), Err: fr.Pick([]string{"EPIPE", "ENOSPC", "EIO"}), Sticky: fr.Bool()}}
		p.Fd1Faults, p.Fd2Faults = wf, wf
	}
	return sc
}

// addShadow: the innermost selected command declares an option of its own under
// both names of a required option of the application's own group (a documented
// feature: the nearer declaration wins from the command word on). The planned
// line gives the required option before the first command word, so it is still
// valid; the fault takes that occurrence away. The required option is then
// missing, whatever the command declares under the same names.
func addShadow(sc *Scenario, r *Rng) {
	d, p := sc.Decl, sc.C09
	if d.Root == nil || len(p.Plan.Chain) == 0 {
		return
	}
	var last *CmdSpec
	cs := d.Commands
	for _, name := range p.Plan.Chain {
		last = findCmd(cs, name)
		if last == nil {
			return
		}
		cs = last.Commands
	}
	var target *GroupSpec
	switch {
	case last.Own != nil:
		target = last.Own
	case len(last.Groups) > 0:
		target = last.Groups[0]
	default:
		return
	}
	firstCmd := -1
	for i, t := range p.Plan.Toks {
		if t.Role == "cmd" {
			firstCmd = i
			break
		}
	}
	inRoot := map[*OptSpec]bool{}
	for _, o := range d.Root.Opts {
		inRoot[o] = true
	}
	var cands []optInfo
	for _, oi := range optInfos(d) {
		if len(oi.CmdPath) != 0 || !inRoot[oi.O] || !oi.O.Required || oi.O.Long == "" || oi.LongFull != oi.O.Long {
			continue
		}
		ok, given := true, false
		for i, t := range p.Plan.Toks {
			if t.Opt == oi.Path {
				given = true
				ok = ok && i < firstCmd
			}
			if t.Role == "cluster" && (i > firstCmd || (oi.O.Short != "" && strings.Contains(t.Text, oi.O.Short))) {
				ok = false
			}
		}
		if ok && given {
			cands = append(cands, oi)
		}
	}
	if len(cands) == 0 {
		return
	}
	oi := cands[r.Intn(len(cands))]
	target.Opts = append(target.Opts, &OptSpec{Field: "FShadowZz", Kind: oi.O.Kind, Long: oi.O.Long, Short: oi.O.Short})
	p.Faults = []ArgFault{{Kind: "delete-required", Opt: oi.Path, Expect: "required", Note: "shadowed"}}
}

// faultedInput applies the payload's faults to its plan.
func (p *C09Payload) faultedInput() (argv []string, callee []CalleeFault, env map[string]string) {
	env = map[string]string{}
	cur := p.Plan
	argv = cur.argv()
	tokenFaults := 0
	for _, f := range p.Faults {
		switch {
		case f.Callee != nil:
			callee = append(callee, *f.Callee)
		case f.Kind == "env-unconvertible":
			env[f.EnvKey] = f.EnvVal
		default:
			// several token faults compose only approximately: later ones are
			// applied to the already faulted vector by position
			if tokenFaults == 0 {
				argv = applyArgFault(cur, f)
			} else {
				argv = applyRaw(argv, f)
			}
			tokenFaults++
		}
	}
	if p.CompPanic {
		argv = append(argv, "--cpzz", "")
		callee = append(callee, CalleeFault{Kind: "complete", Nth: -1, ID: 77, Form: "panic"})
	}
	return
}

func applyRaw(argv []string, f ArgFault) []string {
	pos := f.Pos
	if pos > len(argv) {
		pos = len(argv)
	}
	switch f.Kind {
	case "unknown-long", "unknown-short", "help", "insert-ddash":
		out := append([]string{}, argv[:pos]...)
		out = append(out, f.Text)
		return append(out, argv[pos:]...)
	case "truncate":
		return argv[:pos]
	case "delete-arg", "delete-required-pos":
		if pos < len(argv) {
			out := append([]string{}, argv[:pos]...)
			return append(out, argv[pos+1:]...)
		}
	}
	return argv
}

// noLate (set around a comparison run): the late group is declared from the start.
var noLate bool

func c09Run(sc *Scenario, argv []string, callee []CalleeFault, env map[string]string, completion string) *Outcome {
	when := ""
	if sc.C09 != nil {
		when = sc.C09.CompWhen
	}
	s2 := *sc
	s2.Callee = callee
	s2.World.Env = map[string]BStr{}
	for k, v := range sc.World.Env {
		s2.World.Env[k] = v
	}
	for k, v := range env {
		s2.World.Env[k] = BStr(v)
	}
	if completion != "" && when != "late" {
		s2.World.Env["GO_FLAGS_COMPLETION"] = BStr(completion)
	}
	if completion != "" && sc.C09 != nil && sc.C09.Plan != nil {
		s2.ReenterArgv = bstrs(sc.C09.Plan.argv())
	}
	s2.Ops = nil
	if completion != "" && when == "late" {
		s2.Ops = append(s2.Ops, Op{Kind: "setenv", Key: "GO_FLAGS_COMPLETION", Text: BStr(completion)})
	}
	if completion != "" && when == "unset-late" {
		s2.Ops = append(s2.Ops, Op{Kind: "unsetenv", Key: "GO_FLAGS_COMPLETION"})
	}
	if sc.C09 != nil && sc.C09.First != nil {
		if sc.C09.LateGroup != "" && !noLate {
			d2 := *sc.Decl
			d2.LateGroups = []string{sc.C09.LateGroup}
			s2.Decl = &d2
		}
		if sc.C09.EnvLate {
			// the fault's variables appear only after the first parse
			for k := range env {
				delete(s2.World.Env, k)
			}
		}
		s2.Ops = append(s2.Ops, Op{Kind: "parse", Argv: bstrs(sc.C09.First.argv())})
		if sc.C09.LateGroup != "" && !noLate {
			s2.Ops = append(s2.Ops, Op{Kind: "addgroup"})
		}
		if sc.C09.EnvLate {
			for _, k := range sortedKeys(env) {
				s2.Ops = append(s2.Ops, Op{Kind: "setenv", Key: k, Text: BStr(env[k])})
			}
		}
		if sc.C09.HelpOff {
			s2.Ops = append(s2.Ops, Op{Kind: "setopts", IniOpts: sc.Decl.Options &^ optHelpFlag})
		}
	}
	op := Op{Kind: "parse", Argv: bstrs(argv)}
	if sc.C09 != nil && (len(callee) > 0 || len(env) > 0 || completion != "" || true) {
		op.Fd1Faults, op.Fd2Faults = sc.C09.Fd1Faults, sc.C09.Fd2Faults
	}
	s2.Ops = append(s2.Ops, op)
	return Execute(&s2, nil)
}

// injectedIs: is the returned error (by identity) the injected error with this id?
func injectedIs(r *OpResult, id int) bool {
	for _, x := range r.InjectedIDs {
		if x == id {
			return true
		}
	}
	return r.Injected == id && id != 0
}

func execCalls(calls []Call) (execs, handlers []Call) {
	for _, c := range calls {
		switch c.Kind {
		case "execute":
			execs = append(execs, c)
		case "handler":
			handlers = append(handlers, c)
		}
	}
	return
}

func sameArgs(a []BStr, b []BStr) bool {
	if len(a) != len(b) {
		return false
	}
	for i := range a {
		if a[i] != b[i] {
			return false
		}
	}
	return true
}

func cmdIsExec(d *DeclSpec, path string) bool {
	if path == "" {
		return false
	}
	cs := d.Commands
	var c *CmdSpec
	for _, n := range strings.Split(path, ".") {
		c = findCmd(cs, n)
		if c == nil {
			return false
		}
		cs = c.Commands
	}
	return c.Exec
}

// c09Oracle judges one ParseArgs result against its call log. target is the
// path of the innermost active command ("" = none) and known tells whether the
// harness knows it.
func c09Oracle(v *Verdict, d *DeclSpec, r *OpResult, target string, label string, argv []string, completion bool) {
	execs, handlers := execCalls(r.Calls)
	desc := fmt.Sprintf("%s argv=%q -> err=%s/%s %q rest=%s calls=%s", label, argv, r.Err, r.ErrType, clip(string(r.Msg), 120), mustJSON(r.Rest), mustJSON(append(append([]Call{}, handlers...), execs...)))
	if completion {
		if len(execs)+len(handlers) > 0 {
			v.fail("c09:executed-in-completion-mode", "in completion mode nothing may be executed: "+desc)
		}
		return
	}
	if r.Exit || r.Panic != "" || r.Budget {
		// abnormal endings are C04's business; but a process that exits (completion
		// without handler) must not have executed anything before
		if r.Exit && len(execs)+len(handlers) > 0 {
			v.fail("c09:executed-before-exit", "a command ran although the process then exited: "+desc)
		}
		if r.Panic != "" {
			for _, c := range append(append([]Call{}, execs...), handlers...) {
				if c.Fail != 0 {
					// the command ran and failed; its error never came back
					v.fail("c09:command-error-not-returned-unchanged", fmt.Sprintf("Execute/handler returned injected error #%d, and ParseArgs then panicked (%s) instead of returning it: %s", c.Fail, clip(r.Panic, 120), desc))
					break
				}
			}
		}
		return
	}
	if r.Err != "" {
		// an error from Execute / the handler itself is returned unchanged
		if r.Err == "injected" {
			var failing *Call
			n := 0
			for i := range r.Calls {
				c := &r.Calls[i]
				if (c.Kind == "execute" || c.Kind == "handler") && c.Fail != 0 {
					failing = c
					n++
				}
			}
			if failing != nil && injectedIs(r, failing.Fail) {
				// the invocation happened and its error came back by identity: check "exactly once"
				if len(execs) > 1 || len(handlers) > 1 {
					v.fail("c09:executed-more-than-once", "more than one invocation: "+desc)
				}
				// ... and it saw precisely the remaining arguments the parser also returns
				if !sameArgs(failing.Args, r.Rest) && !(r.ErrType == "help" && len(r.Rest) == 0) {
					v.failAttr("C09", "c09:execute-args-differ-from-returned", fmt.Sprintf("the command (which then failed) received %s but ParseArgs returned %s: %s", mustJSON(failing.Args), mustJSON(r.Rest), desc),
						map[string]string{"path": "command-error"})
				}
				return
			}
		}
		if len(execs)+len(handlers) > 0 {
			for _, c := range append(execs, handlers...) {
				if c.Fail != 0 {
					// the command's own error was not returned unchanged
					v.fail("c09:command-error-not-returned-unchanged", fmt.Sprintf("Execute/handler returned injected error #%d but ParseArgs returned %s/%s %q: %s", c.Fail, r.Err, r.ErrType, clip(string(r.Msg), 120), desc))
					return
				}
			}
			v.fail("c09:executed-despite-error", "ParseArgs reported an error but a command ran: "+desc)
		}
		return
	}
	// success: exactly one invocation for the innermost active command
	isExec := cmdIsExec(d, target)
	wantExec, wantHandler := 0, 0
	switch d.CmdHandler {
	case "":
		if isExec {
			wantExec = 1
		}
	case "log":
		wantHandler = 1
	case "forward":
		wantHandler = 1
		if isExec {
			wantExec = 1
		}
	case "late-log":
		// installed by the first option callback of this very line, if one ran. The
		// statement asks for exactly one invocation and does not say whether a handler
		// that appears while the line is parsed already counts: either the handler
		// (alone) or the command's Execute (alone) is accepted
		installed := false
		for _, c := range r.Calls {
			installed = installed || c.Kind == "callback"
		}
		if installed && len(handlers) == 1 && len(execs) == 0 {
			wantHandler = 1
		} else if isExec {
			wantExec = 1
		}
	}
	if len(execs) > wantExec || len(handlers) > wantHandler {
		v.fail("c09:executed-more-than-once", fmt.Sprintf("expected %d Execute and %d handler invocation(s) for innermost command %q: %s", wantExec, wantHandler, target, desc))
		return
	}
	if len(execs) < wantExec || len(handlers) < wantHandler {
		// a failing handler in forward mode legitimately skips Execute; that case has r.Err != ""
		v.fail("c09:not-executed", fmt.Sprintf("successful parse but expected %d Execute and %d handler invocation(s) for innermost command %q: %s", wantExec, wantHandler, target, desc))
		return
	}
	for _, c := range execs {
		if string(c.Who) != target {
			v.fail("c09:wrong-command-executed", fmt.Sprintf("innermost active command is %q but %q was executed: %s", target, c.Who, desc))
		}
		if !sameArgs(c.Args, r.Rest) {
			v.fail("c09:execute-args-differ-from-returned", fmt.Sprintf("Execute received %s but ParseArgs returned %s: %s", mustJSON(c.Args), mustJSON(r.Rest), desc))
		}
	}
	for _, c := range handlers {
		if isExec {
			if string(c.Who) != target {
				v.fail("c09:wrong-command-executed", fmt.Sprintf("CommandHandler should receive the innermost active command %q but got %q: %s", target, c.Who, desc))
			}
		} else if cmdIsExec(d, string(c.Who)) {
			// the innermost command has no Execute: what the handler is handed then is
			// not fixed (nil today), but it must not be some OTHER executable command
			v.fail("c09:wrong-command-executed", fmt.Sprintf("the innermost active command %q is not executable, yet CommandHandler received the executable command %q: %s", target, c.Who, desc))
		}
		if !sameArgs(c.Args, r.Rest) {
			v.fail("c09:execute-args-differ-from-returned", fmt.Sprintf("CommandHandler received %s but ParseArgs returned %s: %s", mustJSON(c.Args), mustJSON(r.Rest), desc))
		}
	}
}

// c09Enforced: fault kinds whose documented outcome is a rejection on every tree
// that keeps the library's documented interface (the generator sets Expect only
// where that outcome is certain for the declaration at hand). Left out on purpose:
// flag-with-arg and bad-quote, where accepting the text would be a legitimate
// extension of the value syntax.
var c09Enforced = map[string]bool{"unknown-long": true, "unknown-short": true, "unknown-in-cluster": true, "delete-arg": true, "bad-value": true,
	"delete-required": true, "delete-required-pos": true, "bad-pos-value": true, "delete-cmd": true, "misspell-cmd": true, "help": true, "env-unconvertible": true}

// planTouchesGroup: does the plan name an option that lives in the top-level
// group of this name (or below it)?
func planTouchesGroup(d *DeclSpec, p *Plan, group string) bool {
	for _, t := range p.Toks {
		if t.Role == "cluster" {
			return true // (which options a cluster names is not recorded)
		}
		if t.Opt == "" {
			continue
		}
		parts := strings.SplitN(t.Opt, "|", 3)
		if len(parts) == 3 && parts[0] == "" && strings.SplitN(parts[1], "/", 2)[0] == group {
			return true
		}
	}
	return false
}

func argvHas(argv []string, text string) bool {
	for _, a := range argv {
		if a == text || strings.HasSuffix(a, text) {
			return true
		}
	}
	return false
}

func planMentions(p *Plan, opt string) bool {
	for _, t := range p.Toks {
		if t.Opt == opt || t.Role == "cluster" {
			return true
		}
	}
	return false
}

// faultStillExpected re-derives, from the declaration as it is now (a minimised
// scenario may have lost attributes the generator relied on), whether the fault's
// documented outcome is still a rejection. Errs towards "no".
func faultStillExpected(d *DeclSpec, p *Plan, f ArgFault, argv []string) bool {
	if f.Kind != "env-unconvertible" && mustJSON(argv) == mustJSON(p.argv()) {
		return false // the fault changes nothing (any more)
	}
	ois := map[string]optInfo{}
	for _, oi := range optInfos(d) {
		ois[oi.Path] = oi
	}
	onChain := func(oi optInfo) bool {
		if len(oi.CmdPath) > len(p.Chain) {
			return false
		}
		for i := range oi.CmdPath {
			if oi.CmdPath[i] != p.Chain[i] {
				return false
			}
		}
		return true
	}
	switch f.Kind {
	case "unknown-long", "unknown-short", "unknown-in-cluster":
		return !unknownAccepted(d) || (d.UnknownHandler == "fail" && d.Options&optIgnoreUnknown == 0)
	case "help":
		return d.Options&optHelpFlag != 0
	case "delete-required":
		oi, ok := ois[f.Opt]
		return ok && oi.O.Required && onChain(oi)
	case "delete-cmd", "misspell-cmd":
		if f.Kind == "misspell-cmd" && d.Options&optPassAfterNonOption != 0 {
			return false
		}
		// every command of the chain must still exist, and the parent of the
		// affected word must still require a subcommand
		cs, need := d.Commands, !d.SubOptional
		k := len(p.Chain) - 1
		if f.Kind == "misspell-cmd" {
			k = 0
			n := 0
			for i, t := range p.Toks {
				if t.Role == "cmd" {
					if i == f.Pos {
						k = n
					}
					n++
				}
			}
		}
		for i := 0; i <= k && i < len(p.Chain); i++ {
			c := findCmd(cs, p.Chain[i])
			if c == nil {
				return false
			}
			if i == k {
				return need
			}
			need = !c.SubOptional
			cs = c.Commands
		}
		return false
	case "bad-value":
		oi, ok := ois[f.Opt]
		if !ok || !onChain(oi) {
			return false
		}
		if f.Expect == "invalid choice" {
			return len(oi.O.Choices) > 0
		}
		if strings.HasSuffix(f.Text, "300") || strings.HasSuffix(f.Text, "256") || strings.HasSuffix(f.Text, "70000") {
			// a well-formed number: a fault only where the type cannot hold it
			return oi.O.Base == 0 && (oi.O.Kind == "int8" || oi.O.Kind == "uint8" || oi.O.Kind == "uint16") && argvHas(argv, f.Text)
		}
		b := baseKind(oi.O.Kind)
		return strings.Contains(b, "int") || strings.Contains(b, "float") || b == "duration" || b == "um" || b == "us" || (b == "vv" && f.Expect == "expected argument")
	case "delete-arg":
		oi, ok := ois[f.Opt]
		return ok && onChain(oi) && !isBoolFlag(oi.O.Kind) && !oi.O.Optional
	case "env-unconvertible":
		oi, ok := ois[f.Opt]
		if f.Expect == "invalid choice" {
			return ok && len(oi.O.Choices) > 0 && oi.O.Env != "" && envFullOf(d, oi) == f.EnvKey
		}
		if ok && oi.O.Base != 0 && strings.HasSuffix(f.EnvVal, "12x") {
			return false // a number in a base beyond 33
		}
		if ok && isMapKind(oi.O.Kind) && !strings.Contains(f.EnvVal, ":") {
			return false // the value part would be the empty text: a conversion boundary, not a fault
		}
		return ok && oi.O.Env != "" && envFullOf(d, oi) == f.EnvKey
	case "delete-required-pos":
		return posDeletionRequired(d, p)
	case "bad-pos-value":
		// the word still stands where an integer positional field is filled
		if f.Pos >= len(p.Toks) || p.Toks[f.Pos].Role != "pos" || p.Toks[f.Pos].Kind != "int" {
			return false
		}
		n := 0
		for _, t := range p.Toks[:f.Pos] {
			if t.Role == "pos" {
				n++
			}
		}
		var own *GroupSpec
		if len(p.Chain) == 0 {
			own = d.Root
		} else {
			cs := d.Commands
			for i, name := range p.Chain {
				c := findCmd(cs, name)
				if c == nil {
					return false
				}
				if i == len(p.Chain)-1 {
					own = c.Own
				}
				cs = c.Commands
			}
		}
		return own != nil && n < len(own.Pos) && own.Pos[n].Kind == "int"
	}
	return false
}

func (propC09) Judge(sc *Scenario) *Verdict {
	v := &Verdict{OK: true}
	p := sc.C09
	if p == nil || p.Plan == nil {
		return harnessTrouble(v, "C09 scenario without payload")
	}
	d := sc.Decl
	// 1. fault-free twin: liveness guard, so that the safety oracle is not vacuous
	twin := c09Run(sc, p.Plan.argv(), nil, nil, "")
	v.Evals++
	v.addStats(twin.Stats)
	if twin.HarnessPanic != "" {
		return harnessTrouble(v, twin.HarnessPanic)
	}
	sig := func(outcome string) {
		fk := "none"
		posClass := ""
		if len(p.Faults) > 0 {
			fk = p.Faults[0].Kind
			if p.Faults[0].Callee != nil {
				fk = "callee:" + p.Faults[0].Callee.Kind
			}
			if len(p.Faults) > 1 {
				fk += fmt.Sprintf("+%d", len(p.Faults)-1)
			}
			firstCmd, lastCmd := -1, -1
			for i, t := range p.Plan.Toks {
				if t.Role == "cmd" {
					if firstCmd < 0 {
						firstCmd = i
					}
					lastCmd = i
				}
			}
			switch pos := p.Faults[0].Pos; {
			case firstCmd < 0:
				posClass = "nocmd"
			case pos <= firstCmd:
				posClass = "before-cmds"
			case pos <= lastCmd:
				posClass = "between-cmds"
			default:
				posClass = "after-cmds"
			}
		}
		v.Sig = strings.Join([]string{"C09", fmt.Sprintf("depth%d", len(p.Plan.Chain)), fk, posClass, "h=" + d.CmdHandler, fmt.Sprintf("reuse=%v", p.First != nil), "comp=" + p.Completion + p.CompWhen, outcome}, "|")
	}
	if d.Options == 0 && false {
		return v
	}
	if twin.DeclErr != "" {
		v.NotJudged = "declaration rejected"
		sig("declerr")
		return v
	}
	tr := lastOp(twin)
	if planConsistent(d, p.Plan) {
		v.stat("probe.plan-consistent")
	} else {
		v.stat("probe.plan-inconsistent")
	}
	if p.First != nil {
		// the earlier parse on the same parser is itself a fault-free line
		fr := &twin.Ops[0]
		if fr.Op == "parse" && fr.Err == "" && !fr.Exit && fr.Panic == "" && p.LateGroup == "" {
			// (with a group still to be added the first line was not generated for the declaration it meets)
			c09Oracle(v, d, fr, p.First.ExecPath, "first parse on a reused parser", p.First.argv(), false)
		}
	}
	if p.First != nil && p.LateGroup != "" && (tr.Err != "" || tr.Panic != "") && !tr.Exit && !tr.Budget &&
		planConsistent(d, p.Plan) && !planTouchesGroup(d, p.First, p.LateGroup) {
		// (the first line must not name options of the late group - it would fare
		// differently in the two histories - and the judged line must be valid as it stands)
		// the same history with the group declared from the start: if the line is
		// accepted and executed there, completing the declaration after the first
		// parse must not make it fail
		noLate = true
		ref := c09Run(sc, p.Plan.argv(), nil, nil, "")
		noLate = false
		v.Evals++
		if rr := lastOp(ref); ref.HarnessPanic == "" && rr.Err == "" && rr.Panic == "" && !rr.Exit && !rr.Budget && len(ref.Ops) > 0 && ref.Ops[0].Err == "" && twin.Ops[0].Err == "" {
			v.failAttr("C09", "c09:not-executed", fmt.Sprintf("group %q was added with AddGroup after a first (successful) parse; the valid line argv=%q is then rejected (%s/%s %q) although the same history with the group declared from the start accepts and executes it",
				p.LateGroup, p.Plan.argv(), tr.Err, tr.ErrType, clip(string(tr.Msg), 160)), map[string]string{"history": "late-group"})
			sig("late-group")
			return v
		}
	}
	if (tr.Err != "" || tr.Panic != "") && !tr.Exit && !tr.Budget && p.First == nil && planConsistent(d, p.Plan) {
		// the line was generated to be valid for this declaration (every spelling and
		// arrangement it uses is a documented one): a fresh parser must accept it
		v.failAttr("C09", "c09:valid-line-rejected", fmt.Sprintf("a valid command line is rejected, so its command does not run: argv=%q -> %s/%s %q panic=%q", p.Plan.argv(), tr.Err, tr.ErrType, clip(string(tr.Msg), 200), tr.Panic),
			map[string]string{"err_type": tr.ErrType})
		sig("valid-line-rejected")
		return v
	}
	if tr.Err != "" || tr.Panic != "" || tr.Exit || tr.Budget {
		v.NotJudged = "generated line not accepted"
		v.Msg = fmt.Sprintf("twin rejected: argv=%q err=%s/%s %q", p.Plan.argv(), tr.Err, tr.ErrType, string(tr.Msg))
		v.stat("probe.twin-rejected:" + tr.ErrType)
		sig("twin-rejected")
		return v
	}
	c09Oracle(v, d, tr, p.Plan.ExecPath, "fault-free line", p.Plan.argv(), false)
	if !v.OK {
		sig("twin-violation")
		return v
	}
	if len(p.Faults) == 0 && p.Completion == "" {
		sig("clean")
		v.NonTrivial = len(p.Plan.Chain) >= 1
		return v
	}
	// 2. the faulted run
	argv, callee, env := p.faultedInput()
	o := c09Run(sc, argv, callee, env, p.Completion)
	v.Evals++
	v.addStats(o.Stats)
	if o.HarnessPanic != "" {
		return harnessTrouble(v, o.HarnessPanic)
	}
	fr := lastOp(o)
	// the innermost active command of this parse: the Active chain is reliable
	// on a fresh parser only (it is never cleared between parses)
	target := fr.Active
	known := p.First == nil
	if !known && !(p.Completion != "" && p.CompWhen == "unset-late") {
		// on a reused parser judge only what needs no target
		if fr.Err == "" && !fr.Exit && fr.Panic == "" && p.Completion == "" {
			execs, handlers := execCalls(fr.Calls)
			if len(execs) > 1 || len(handlers) > 1 {
				v.fail("c09:executed-more-than-once", fmt.Sprintf("reused parser: more than one invocation for argv=%q: %s", argv, mustJSON(fr.Calls)))
			}
			for _, c := range append(execs, handlers...) {
				if !sameArgs(c.Args, fr.Rest) {
					v.fail("c09:execute-args-differ-from-returned", fmt.Sprintf("reused parser: invocation received %s but ParseArgs returned %s (argv=%q)", mustJSON(c.Args), mustJSON(fr.Rest), argv))
				}
			}
		} else {
			c09Oracle(v, d, fr, "", "faulted line on a reused parser", argv, p.Completion != "")
		}
	} else if p.Completion != "" && p.CompWhen == "unset-late" {
		// the variable is gone when ParseArgs runs: an ordinary parse of a valid line
		if fr.Err != "" || fr.Exit {
			v.fail("c09:not-executed", fmt.Sprintf("GO_FLAGS_COMPLETION was unset before ParseArgs, yet the valid line argv=%q was not parsed normally: err=%s/%s exit=%v", argv, fr.Err, fr.ErrType, fr.Exit))
		} else {
			c09Oracle(v, d, fr, p.Plan.ExecPath, "valid line after GO_FLAGS_COMPLETION was unset", argv, false)
		}
	} else {
		c09Oracle(v, d, fr, target, "faulted line", argv, p.Completion != "")
	}
	// A line carrying one fault of a kind the statement lists - unknown option, bad
	// or missing value, missing required item, unknown or missing command, help
	// request - for which the documented behaviour is a rejection: whatever the
	// parser made of it, no command may have run.
	if len(p.Faults) == 1 && p.Faults[0].Callee == nil && p.Faults[0].Expect != "" && c09Enforced[p.Faults[0].Kind] && p.Completion == "" &&
		(p.First == nil || (p.Faults[0].Kind == "env-unconvertible" && !planMentions(p.First, p.Faults[0].Opt)) || (p.HelpOff && p.Faults[0].Kind == "help" && !unknownAccepted(d))) && // (what an earlier parse on the same parser leaves behind - options that count as given - is not modelled)
		faultStillExpected(d, p.Plan, p.Faults[0], argv) &&
		fr.Err == "" && !fr.Exit && fr.Panic == "" && !fr.Budget && !fr.Inconclusive {
		execs, handlers := execCalls(fr.Calls)
		v.stat("probe.enforced-fault-accepted:" + p.Faults[0].Kind)
		if len(execs)+len(handlers) > 0 {
			f := p.Faults[0]
			v.failAttr("C09", "c09:executed-despite-fault:"+f.Kind, fmt.Sprintf("the line carries a fault (%s %s%s; a valid line without it is %q; documented outcome: rejection as %q), yet ParseArgs returned no error and a command ran: argv=%q rest=%s calls=%s",
				f.Kind, f.Text, f.Opt+f.EnvKey, p.Plan.argv(), f.Expect, argv, mustJSON(fr.Rest), mustJSON(append(append([]Call{}, handlers...), execs...))),
				map[string]string{"fault": f.Kind})
		}
	}
	for i := range o.Ops {
		if o.Ops[i].Aliased != "" {
			v.fail("c09:arguments-changed-after-the-fact", o.Ops[i].Aliased)
		}
	}
	changed := fr.Err != tr.Err || mustJSON(fr.Calls) != mustJSON(tr.Calls)
	out := "accepted"
	if fr.Err != "" {
		out = "rejected:" + fr.ErrType
		v.stat("probe.fault-produced-error")
	} else {
		v.stat("probe.fault-harmless")
	}
	sig(out)
	v.NonTrivial = len(p.Plan.Chain) >= 1 && changed
	return v
}

func (propC09) Reductions(sc *Scenario) []func(*Scenario) bool {
	var out []func(*Scenario) bool
	p := sc.C09
	if p == nil {
		return nil
	}
	if p.First != nil {
		out = append(out, func(s *Scenario) bool { s.C09.First = nil; return true })
	}
	if p.Completion != "" && !p.CompPanic {
		out = append(out, func(s *Scenario) bool { s.C09.Completion, s.C09.CompWhen = "", ""; return true })
	}
	if len(p.Fd1Faults)+len(p.Fd2Faults) > 0 {
		out = append(out, func(s *Scenario) bool { s.C09.Fd1Faults, s.C09.Fd2Faults = nil, nil; return true })
	}
	for i := range p.Faults {
		i := i
		out = append(out, func(s *Scenario) bool {
			if i >= len(s.C09.Faults) {
				return false
			}
			s.C09.Faults = append(s.C09.Faults[:i:i], s.C09.Faults[i+1:]...)
			return true
		})
	}
	// drop plan tokens that belong together (an option occurrence = name [+ value])
	dropToks := func(pl func(s *Scenario) *Plan, n int) {
		for i := 0; i < n; i++ {
			i := i
			out = append(out, func(s *Scenario) bool {
				q := pl(s)
				if q == nil || i >= len(q.Toks) {
					return false
				}
				t := q.Toks[i]
				lo, hi := i, i+1
				switch t.Role {
				case "cmd", "val":
					return false
				case "optname":
					if i+1 < len(q.Toks) && q.Toks[i+1].Role == "val" {
						hi = i + 2
					}
				case "rest", "raw":
					// keep the expected rest in step
					for k, w := range q.Rest {
						if w == t.Text {
							q.Rest = append(q.Rest[:k:k], q.Rest[k+1:]...)
							break
						}
					}
				}
				q.Toks = append(q.Toks[:lo:lo], q.Toks[hi:]...)
				for k := range s.C09.Faults {
					if s.C09.Faults[k].Pos > lo {
						s.C09.Faults[k].Pos -= hi - lo
					}
				}
				return true
			})
		}
	}
	dropToks(func(s *Scenario) *Plan { return s.C09.Plan }, len(p.Plan.Toks))
	return out
}
