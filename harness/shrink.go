package main

import (
	"strings"
	"time"
)

// Structural delta debugging over a materialised scenario: a reduction is
// kept iff the judge still reports a violation of the SAME class.

type shrinkStats struct {
	Tried, Kept int
}

func genericReductions(sc *Scenario) []func(*Scenario) bool {
	var out []func(*Scenario) bool
	// drop operations (never the last one first: try from the front)
	for i := range sc.Ops {
		i := i
		out = append(out, func(s *Scenario) bool {
			if i >= len(s.Ops) || len(s.Ops) <= 1 {
				return false
			}
			s.Ops = append(s.Ops[:i:i], s.Ops[i+1:]...)
			return true
		})
	}
	for i := range sc.Ops {
		i := i
		op := &sc.Ops[i]
		switch op.Kind {
		case "parse":
			for j := range op.Argv {
				j := j
				out = append(out, func(s *Scenario) bool {
					if i >= len(s.Ops) || j >= len(s.Ops[i].Argv) {
						return false
					}
					a := s.Ops[i].Argv
					s.Ops[i].Argv = append(a[:j:j], a[j+1:]...)
					return true
				})
			}
			if len(op.Fd1Faults)+len(op.Fd2Faults) > 0 {
				out = append(out, func(s *Scenario) bool {
					s.Ops[i].Fd1Faults, s.Ops[i].Fd2Faults = nil, nil
					return true
				})
			}
		case "iniread":
			if op.Data != "" {
				lines := strings.SplitAfter(string(op.Data), "\n")
				for j := range lines {
					j := j
					out = append(out, func(s *Scenario) bool {
						if i >= len(s.Ops) {
							return false
						}
						ls := strings.SplitAfter(string(s.Ops[i].Data), "\n")
						if j >= len(ls) || len(ls) <= 1 {
							return false
						}
						ls = append(ls[:j:j], ls[j+1:]...)
						s.Ops[i].Data = BStr(strings.Join(ls, ""))
						return true
					})
				}
			}
			if len(op.Chunks) > 0 || op.Rest != 0 {
				out = append(out, func(s *Scenario) bool {
					s.Ops[i].Chunks, s.Ops[i].Rest = nil, 0
					return true
				})
			}
		case "iniwrite", "help", "man":
			if len(op.WFaults) > 0 {
				out = append(out, func(s *Scenario) bool { s.Ops[i].WFaults = nil; return true })
			}
		}
	}
	// callee faults
	for i := range sc.Callee {
		i := i
		out = append(out, func(s *Scenario) bool {
			if i >= len(s.Callee) {
				return false
			}
			s.Callee = append(s.Callee[:i:i], s.Callee[i+1:]...)
			return true
		})
	}
	// world
	for _, k := range sortedKeys(sc.World.Env) {
		k := k
		out = append(out, func(s *Scenario) bool {
			if _, ok := s.World.Env[k]; !ok {
				return false
			}
			delete(s.World.Env, k)
			return true
		})
	}
	// declaration: drop commands, groups, options
	out = append(out, declReductions(sc.Decl)...)
	return out
}

func declReductions(d *DeclSpec) []func(*Scenario) bool {
	var out []func(*Scenario) bool
	// commands (by path)
	for _, c := range d.allCmds() {
		path := c.Path
		out = append(out, func(s *Scenario) bool { return removeCmd(s.Decl, path) })
	}
	for i := range d.Groups {
		i := i
		out = append(out, func(s *Scenario) bool {
			if i >= len(s.Decl.Groups) {
				return false
			}
			s.Decl.Groups = append(s.Decl.Groups[:i:i], s.Decl.Groups[i+1:]...)
			return true
		})
	}
	// nested groups, options and positionals: address by (group index in walk order, item index)
	gi := 0
	d.eachGroupSpec(func(g *GroupSpec, cp []string, own bool) {
		idx := gi
		gi++
		for j := range g.Sub {
			j := j
			out = append(out, func(s *Scenario) bool {
				t := nthGroup(s.Decl, idx)
				if t == nil || j >= len(t.Sub) {
					return false
				}
				t.Sub = append(t.Sub[:j:j], t.Sub[j+1:]...)
				return true
			})
		}
		for j := range g.Opts {
			j := j
			out = append(out, func(s *Scenario) bool {
				t := nthGroup(s.Decl, idx)
				if t == nil || j >= len(t.Opts) {
					return false
				}
				t.Opts = append(t.Opts[:j:j], t.Opts[j+1:]...)
				return true
			})
		}
		if len(g.Pos) > 0 {
			out = append(out, func(s *Scenario) bool {
				t := nthGroup(s.Decl, idx)
				if t == nil || len(t.Pos) == 0 {
					return false
				}
				t.Pos = nil
				return true
			})
		}
		// simplify option attributes
		for j, o := range g.Opts {
			j := j
			type attr struct {
				has bool
				clr func(o *OptSpec)
			}
			attrs := []attr{
				{o.Desc != "", func(o *OptSpec) { o.Desc = "" }},
				{len(o.Default) > 0, func(o *OptSpec) { o.Default = nil }},
				{o.Env != "", func(o *OptSpec) { o.Env, o.EnvDelim = "", "" }},
				{o.Optional, func(o *OptSpec) { o.Optional, o.OptionalValue = false, nil }},
				{o.Required, func(o *OptSpec) { o.Required = false }},
				{len(o.Choices) > 0, func(o *OptSpec) { o.Choices = nil }},
				{o.Hidden, func(o *OptSpec) { o.Hidden = false }},
				{o.IniName != "", func(o *OptSpec) { o.IniName = "" }},
				{o.Base != 0, func(o *OptSpec) { o.Base = 0 }},
				{o.ValueName != "", func(o *OptSpec) { o.ValueName = "" }},
				{o.Init != nil, func(o *OptSpec) { o.Init = nil }},
				{o.Short != "" && o.Long != "", func(o *OptSpec) { o.Short = "" }},
			}
			for _, a := range attrs {
				if !a.has {
					continue
				}
				a := a
				out = append(out, func(s *Scenario) bool {
					t := nthGroup(s.Decl, idx)
					if t == nil || j >= len(t.Opts) {
						return false
					}
					a.clr(t.Opts[j])
					return true
				})
			}
		}
		if g.Namespace != "" || g.EnvNamespace != "" || g.Hidden {
			out = append(out, func(s *Scenario) bool {
				t := nthGroup(s.Decl, idx)
				if t == nil {
					return false
				}
				t.Namespace, t.EnvNamespace, t.Hidden = "", "", false
				return true
			})
		}
	})
	if d.NSDelim != "" || d.EnvNSDelim != "" || d.Usage != "" || d.LongDesc != "" || d.ShortDesc != "" {
		out = append(out, func(s *Scenario) bool {
			s.Decl.NSDelim, s.Decl.EnvNSDelim, s.Decl.Usage, s.Decl.LongDesc, s.Decl.ShortDesc = "", "", "", "", ""
			return true
		})
	}
	if d.UnknownHandler != "" {
		out = append(out, func(s *Scenario) bool { s.Decl.UnknownHandler = ""; return true })
	}
	if d.Reenter {
		out = append(out, func(s *Scenario) bool { s.Decl.Reenter = false; return true })
	}
	if d.CmdHandler != "" {
		out = append(out, func(s *Scenario) bool { s.Decl.CmdHandler = ""; return true })
	}
	if d.Options != 0 {
		for bit := uint(1); bit <= 64; bit <<= 1 {
			if d.Options&bit != 0 {
				bit := bit
				out = append(out, func(s *Scenario) bool {
					if s.Decl.Options&bit == 0 {
						return false
					}
					s.Decl.Options &^= bit
					return true
				})
			}
		}
	}
	return out
}

func nthGroup(d *DeclSpec, n int) *GroupSpec {
	var res *GroupSpec
	i := 0
	d.eachGroupSpec(func(g *GroupSpec, cp []string, own bool) {
		if i == n {
			res = g
		}
		i++
	})
	return res
}

func removeCmd(d *DeclSpec, path []string) bool {
	var rec func(cs *[]*CmdSpec, p []string) bool
	rec = func(cs *[]*CmdSpec, p []string) bool {
		for i, c := range *cs {
			if c.Name != p[0] {
				continue
			}
			if len(p) == 1 {
				*cs = append((*cs)[:i:i], (*cs)[i+1:]...)
				return true
			}
			return rec(&c.Commands, p[1:])
		}
		return false
	}
	if len(path) == 0 {
		return false
	}
	return rec(&d.Commands, path)
}

// shrinkBy minimises sc while keep(verdict) holds (same violation class, or the same known finding). It returns the
// minimised scenario and its verdict.
func shrinkBy(p Property, sc *Scenario, v *Verdict, budget time.Duration, keep func(*Verdict) bool) (*Scenario, *Verdict, shrinkStats) {
	var st shrinkStats
	deadline := time.Now().Add(budget)
	best, bestV := sc, v
	for round := 0; round < 50; round++ {
		progress := false
		bestJSON := mustJSON(best)
		reds := append(p.Reductions(best), genericReductions(best)...)
		for ri := 0; ri < len(reds); ri++ {
			if time.Now().After(deadline) {
				return best, bestV, st
			}
			cand := cloneJSON(best)
			if !reds[ri](cand) {
				continue
			}
			if mustJSON(cand) == bestJSON {
				continue // a no-op reduction
			}
			st.Tried++
			cv := judgeSafely(p, cand)
			if cv.Trouble == "" && keep(cv) {
				best, bestV = cand, cv
				bestJSON = mustJSON(best)
				st.Kept++
				progress = true
				// indices shifted: recompute the reduction list
				// the list is recomputed; the same index now names the next candidate
				reds = append(p.Reductions(best), genericReductions(best)...)
				ri--
				if st.Kept > 5000 {
					return best, bestV, st
				}
			}
		}
		if !progress {
			break
		}
	}
	return best, bestV, st
}
