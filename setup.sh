#!/bin/sh
# Builds the driver (weaver + orchestrator) from /verif sources only. Offline.
set -e
cd "$(dirname "$0")"
export GOFLAGS=-mod=mod GOPROXY=off GOSUMDB=off GOTOOLCHAIN=local
mkdir -p bin evidence replays
go build -o bin/simcheck ./cmd/simcheck
echo "setup ok"
